"""C13 - Grid indexing and geometry are coherent across input forms and EGRID files.

Reference model (written from the property statement and the Eclipse description of the
keywords DX/DY/DZ/TOPS, DXV/DYV/DZV/DEPTHZ, COORD/ZCORN, ACTNUM, NNC, MAPAXES, EGRID):

* a grid is a lattice xs[0..nx] x ys[0..ny] of parallel pillars (direction (sx, sy, 1)) and, per
  cell, four top and four bottom corner depths.  All numbers are exact rationals
  (fractions.Fraction) in deck units; SI = deck value * length factor (ft = 0.3048 m, cm = 0.01 m).
* cell volume = footprint area * mean corner thickness (exact for vertical pillars with planar or
  translated top/bottom surfaces; a global shear has determinant 1).
* global index g = i + nx*(j + ny*k); active cells are numbered in increasing g over ACTNUM > 0.
* COORD: per pillar (j slow, i fast) top point and bottom point; ZCORN: per layer the top plane
  then the bottom plane, each plane 2*ny lines of 2*nx corner depths.
"""
import io
import math
import os
import struct
from fractions import Fraction as F

from hypothesis import strategies as st

from vlib import build
from vlib.probe import LibError, Probe, hexf
from vlib.runner import Check, sha

EPS = 2.0 ** -52
UNIT_F = {"METRIC": F(1), "FIELD": F(3048, 10000), "LAB": F(1, 100), "PVT-M": F(1)}
GRIDUNIT = {"METRIC": "METRES", "FIELD": "FEET", "LAB": "CM"}
GRIDUNIT_F = {"METRES": F(1), "FEET": F(3048, 10000), "CM": F(1, 100)}
UNIT_NAME = {"METRIC": "Metric", "FIELD": "Field", "LAB": "Lab", "PVT-M": "PVT-M"}
SCALES = ["0.25", "0.1", "0.37", "1"]

# float round trip through the file: value -> float (2^-24 relative, round to nearest) and the
# two unit conversions in double (2 * 2^-53); a formatted file prints the float with 8
# significant digits (5e-8 relative) and rounds the parsed text to float once more (2^-24).
REL_UNFMT = 2.0 ** -24 * 1.001
REL_FMT = 2.0 ** -24 * 2.002 + 5.0e-8 * 1.001


# ----------------------------------------------------------------------------- generator
def _fixed(strategy, n):
    return st.lists(strategy, min_size=n, max_size=n)


@st.composite
def case_strategy(draw, tier):
    kind = draw(st.sampled_from(["cp", "bc", "cp", "bc", "cp"]))
    nx = draw(st.integers(1, 7))
    ny = draw(st.integers(1, 7))
    nz = draw(st.integers(1, 7))
    n = nx * ny * nz
    case = {
        "kind": kind, "nx": nx, "ny": ny, "nz": nz,
        "units": draw(st.sampled_from(["FIELD", "METRIC", "LAB", "FIELD", "METRIC", "LAB", "PVT-M"])),
        "scale": draw(st.sampled_from(SCALES)),
        "dx": draw(_fixed(st.integers(1, 400), nx)),
        "dy": draw(_fixed(st.integers(1, 400), ny)),
        "top0": draw(st.integers(0, 8000)),
    }
    if kind == "bc":
        top = draw(st.sampled_from(["TOPS1", "DEPTHZ", "TOPSN", "TOPS1"]))
        case["top"] = top
        if top == "DEPTHZ":
            case["xform"] = case["yform"] = case["zform"] = "V"
        else:
            case["xform"] = draw(st.sampled_from(["D", "V", "D1"]))
            case["yform"] = draw(st.sampled_from(["D1", "V", "D"]))
            case["zform"] = draw(st.sampled_from(["D", "V", "D", "DL"]))
            if case["zform"] == "DL":
                # DZ for the first L layers only (1 <= L < nz): "the value from the layer above is used" for the rest
                if nz >= 2:
                    case["zlayers"] = draw(st.integers(1, nz - 1))
                else:
                    case["zform"] = "D"
        case["dz_base"] = draw(st.lists(st.integers(1, 200), min_size=1, max_size=6))
        case["dz_mix"] = [draw(st.integers(0, 5)), draw(st.integers(0, 5)), draw(st.integers(1, 5))]
        case["top_base"] = draw(st.lists(st.integers(0, 400), min_size=1, max_size=6))
        case["top_mix"] = [draw(st.integers(0, 5)), draw(st.integers(0, 5))]
        case["gaps"] = draw(_fixed(st.sampled_from([0, 0, 0, 1, 8, 40]), max(nz - 1, 0)))
        # one column pinched out completely (DZ = 0 in every layer): cells of zero volume are legitimate input, the others
        # must not notice.  Half of the time it is the corner column (1,1), whose pillar decides the z orientation
        if top != "DEPTHZ" and nx * ny > 1 and draw(st.integers(0, 5)) == 0:
            case["zerocol"] = [0, 0] if draw(st.booleans()) else [draw(st.integers(0, nx - 1)), draw(st.integers(0, ny - 1))]
    else:
        if draw(st.sampled_from([True, False])):
            nz_int = st.integers(1, 12).flatmap(lambda v: st.sampled_from([v, -v]))
            case["shear"] = [draw(st.one_of(nz_int, st.just(0))), draw(nz_int)]     # sixteenths
        else:
            case["shear"] = [0, 0]
        layers = []
        for _ in range(nz):
            t00 = draw(st.integers(4, 200))
            a = draw(st.integers(-(t00 // 3), 200))
            b = draw(st.integers(-(t00 // 3), 200))
            layers.append([t00, a, b])
        case["layers"] = layers
        case["surf0"] = [draw(st.integers(-300, 300)), draw(st.integers(-300, 300))]
        case["gaps"] = draw(_fixed(st.sampled_from([0, 0, 0, 1, 8, 40]), max(nz - 1, 0)))
        if draw(st.sampled_from([True, True, False])):
            case["fault_base"] = draw(st.lists(st.integers(0, 300), min_size=2, max_size=5, unique=True))
            case["fault_mix"] = [draw(st.integers(1, 5)), draw(st.integers(0, 5))]
        else:
            case["fault_base"] = [0]
            case["fault_mix"] = [0, 0]
        case["pillar"] = draw(st.sampled_from(["perpillar", "global", "degenerate", "perpillar"]))
        case["pillar_pad"] = draw(st.lists(st.integers(0, 50), min_size=1, max_size=4))
        case["origin"] = [draw(st.integers(-4000, 4000)), draw(st.integers(-4000, 4000))]
    # ACTNUM: bit mask of inactive cells (bit g = global cell g); None = no ACTNUM keyword
    am = draw(st.sampled_from(["half", "quarter", "one", "most", "none", "half", "all"]))
    full = (1 << n) - 1
    if am == "none":
        inact = None
    elif am == "one":
        inact = 1 << draw(st.integers(0, n - 1))
    elif am == "quarter":
        inact = draw(st.integers(0, full)) & draw(st.integers(0, full))
    elif am == "half":
        inact = draw(st.integers(0, full))
    elif am == "most":
        inact = draw(st.integers(0, full)) | draw(st.integers(0, full))
    else:
        inact = full
    case["inactive"] = None if inact is None else "%x" % inact
    # NNC records as pairs of global indices
    # (most are mapped onto active cells so that they survive NNC's "both cells active" filter)
    active = [g for g in range(n) if inact is None or not (inact >> g) & 1]
    raw = draw(st.lists(st.tuples(st.integers(0, n - 1), st.integers(0, n - 1), st.integers(0, 3)),
                        min_size=0, max_size=6))
    case["nnc"] = [[active[u % len(active)], active[v % len(active)]] if (m and active) else [u, v]
                   for (u, v, m) in raw]
    if draw(st.sampled_from([True, False])):
        case["mapaxes"] = {"o": [draw(st.integers(-100000, 100000)), draw(st.integers(-100000, 100000))],
                           "rot": draw(st.integers(0, 15)), "len": draw(st.sampled_from([1, 100, 1000])),
                           "hand": draw(st.sampled_from([1, 1, -1])),
                           "units": draw(st.sampled_from(["FEET", None, "METRES", "CM"]))}
    else:
        case["mapaxes"] = None
    case["actroute"] = draw(st.sampled_from(["reset", "ctor", "copy", "reset_all"]))
    case["formatted"] = draw(st.sampled_from([True, False]))
    case["split"] = draw(st.sampled_from(["i", "j"]))
    # GRIDUNIT in the GRID section: the geometry keywords are then in that length unit, whatever the deck's unit system
    case["gridunit"] = draw(st.sampled_from([None, None, None, "METRES", "FEET", "CM"]))
    return case


# ----------------------------------------------------------------------------- reference model
class Ref:
    """lattice of parallel pillars + per-cell corner depths, exact rationals in deck units"""

    def __init__(self, nx, ny, nz):
        self.nx, self.ny, self.nz = nx, ny, nz
        self.xs = []
        self.ys = []
        self.sx = F(0)
        self.sy = F(0)
        self.zref = F(0)
        self.ztop = {}      # (i,j,k) -> [4 depths]  corner order (i,j) (i+1,j) (i,j+1) (i+1,j+1)
        self.zbot = {}
        self.ptop = {}      # (i,j) node -> depth of the pillar's first COORD point
        self.pbot = {}

    def cells(self):
        for k in range(self.nz):
            for j in range(self.ny):
                for i in range(self.nx):
                    yield i, j, k

    def gidx(self, i, j, k):
        return i + self.nx * (j + self.ny * k)

    def point(self, i, j, z):
        """position of the point at depth z on the pillar through node (i,j)"""
        return (self.xs[i] + self.sx * (z - self.zref), self.ys[j] + self.sy * (z - self.zref), z)

    def corners(self, i, j, k):
        t, b = self.ztop[(i, j, k)], self.zbot[(i, j, k)]
        nodes = [(i, j), (i + 1, j), (i, j + 1), (i + 1, j + 1)]
        return [self.point(a, c, t[q]) for q, (a, c) in enumerate(nodes)] + \
               [self.point(a, c, b[q]) for q, (a, c) in enumerate(nodes)]

    def volume(self, i, j, k):
        t, b = self.ztop[(i, j, k)], self.zbot[(i, j, k)]
        return (self.xs[i + 1] - self.xs[i]) * (self.ys[j + 1] - self.ys[j]) * (sum(b) - sum(t)) / 4

    def zrange(self):
        zs = [z for v in self.ztop.values() for z in v] + [z for v in self.zbot.values() for z in v]
        return min(zs), max(zs)

    def default_pillars(self, pad_top=F(0), pad_bot=F(0)):
        lo, hi = self.zrange()
        for j in range(self.ny + 1):
            for i in range(self.nx + 1):
                self.ptop[(i, j)] = lo - pad_top
                self.pbot[(i, j)] = hi + pad_bot

    def scales(self):
        """(largest coordinate magnitude, smallest cell extent) in deck units"""
        lo, hi = self.zrange()
        zs = [lo, hi] + list(self.ptop.values()) + list(self.pbot.values())
        zmax = max(abs(z) for z in zs)
        dzs = max(abs(z - self.zref) for z in zs)
        L = max(max(abs(x) for x in self.xs) + abs(self.sx) * dzs,
                max(abs(y) for y in self.ys) + abs(self.sy) * dzs, zmax)
        ext = min(min(self.xs[i + 1] - self.xs[i] for i in range(self.nx)),
                  min(self.ys[j + 1] - self.ys[j] for j in range(self.ny)),
                  min([b - t for c in self.ztop for t, b in zip(self.ztop[c], self.zbot[c]) if b - t > 0] or [1]))
        return L, ext

    def vals(self, f):
        """expected values in SI as floats (computed exactly, rounded once), memoised"""
        if getattr(self, "_vals", None) is None:
            vol, cor, cen, dim = [], [], [], []
            for k in range(self.nz):
                for j in range(self.ny):
                    for i in range(self.nx):
                        vol.append(float(self.volume(i, j, k)) * f ** 3)
                        cor.append([[float(v) * f for v in p] for p in self.corners(i, j, k)])
                        x0, x1 = self.xs[i], self.xs[i + 1]
                        y0, y1 = self.ys[j], self.ys[j + 1]
                        zt = sum(self.ztop[(i, j, k)]) / 4
                        zb = sum(self.zbot[(i, j, k)]) / 4
                        cen.append([float((x0 + x1) / 2) * f, float((y0 + y1) / 2) * f, float((zt + zb) / 2) * f])
                        dim.append([float(x1 - x0) * f, float(y1 - y0) * f, float(zb - zt) * f])
            self._vals = {"vol": vol, "corners": cor, "center": cen, "dims": dim,
                          "zcorn": [float(z) * f for z in self.zcorn()]}
        return self._vals

    # -------- COORD / ZCORN rendering (Eclipse ordering)
    def coord(self):
        out = []
        for j in range(self.ny + 1):
            for i in range(self.nx + 1):
                out.extend(self.point(i, j, self.ptop[(i, j)]))
                out.extend(self.point(i, j, self.pbot[(i, j)]))
        return out

    def zcorn(self):
        out = []
        for k in range(self.nz):
            for plane in (self.ztop, self.zbot):
                for j in range(self.ny):
                    for line in (0, 1):
                        for i in range(self.nx):
                            c = plane[(i, j, k)]
                            out.append(c[2 * line])
                            out.append(c[2 * line + 1])
        return out

    # -------- subdivision by mid-surfaces
    def split_k(self):
        r = Ref(self.nx, self.ny, 2 * self.nz)
        r.xs, r.ys, r.sx, r.sy, r.zref = self.xs, self.ys, self.sx, self.sy, self.zref
        r.ptop, r.pbot = self.ptop, self.pbot
        for (i, j, k) in self.cells():
            t, b = self.ztop[(i, j, k)], self.zbot[(i, j, k)]
            m = [(u + v) / 2 for u, v in zip(t, b)]
            r.ztop[(i, j, 2 * k)], r.zbot[(i, j, 2 * k)] = t, m
            r.ztop[(i, j, 2 * k + 1)], r.zbot[(i, j, 2 * k + 1)] = m, b
        return r, lambda i, j, k: [(i, j, 2 * k), (i, j, 2 * k + 1)]

    def split_i(self):
        r = Ref(2 * self.nx, self.ny, self.nz)
        r.ys, r.sx, r.sy, r.zref = self.ys, self.sx, self.sy, self.zref
        r.xs = []
        for i in range(self.nx):
            r.xs += [self.xs[i], (self.xs[i] + self.xs[i + 1]) / 2]
        r.xs.append(self.xs[self.nx])
        for j in range(self.ny + 1):
            for i in range(self.nx + 1):
                r.ptop[(2 * i, j)], r.pbot[(2 * i, j)] = self.ptop[(i, j)], self.pbot[(i, j)]
                if i < self.nx:
                    r.ptop[(2 * i + 1, j)] = min(self.ptop[(i, j)], self.ptop[(i + 1, j)])
                    r.pbot[(2 * i + 1, j)] = max(self.pbot[(i, j)], self.pbot[(i + 1, j)])
        for (i, j, k) in self.cells():
            for src, dst in ((self.ztop, r.ztop), (self.zbot, r.zbot)):
                c = src[(i, j, k)]
                m0, m1 = (c[0] + c[1]) / 2, (c[2] + c[3]) / 2
                dst[(2 * i, j, k)] = [c[0], m0, c[2], m1]
                dst[(2 * i + 1, j, k)] = [m0, c[1], m1, c[3]]
        return r, lambda i, j, k: [(2 * i, j, k), (2 * i + 1, j, k)]

    def split_j(self):
        r = Ref(self.nx, 2 * self.ny, self.nz)
        r.xs, r.sx, r.sy, r.zref = self.xs, self.sx, self.sy, self.zref
        r.ys = []
        for j in range(self.ny):
            r.ys += [self.ys[j], (self.ys[j] + self.ys[j + 1]) / 2]
        r.ys.append(self.ys[self.ny])
        for j in range(self.ny + 1):
            for i in range(self.nx + 1):
                r.ptop[(i, 2 * j)], r.pbot[(i, 2 * j)] = self.ptop[(i, j)], self.pbot[(i, j)]
                if j < self.ny:
                    r.ptop[(i, 2 * j + 1)] = min(self.ptop[(i, j)], self.ptop[(i, j + 1)])
                    r.pbot[(i, 2 * j + 1)] = max(self.pbot[(i, j)], self.pbot[(i, j + 1)])
        for (i, j, k) in self.cells():
            for src, dst in ((self.ztop, r.ztop), (self.zbot, r.zbot)):
                c = src[(i, j, k)]
                m0, m1 = (c[0] + c[2]) / 2, (c[1] + c[3]) / 2
                dst[(i, 2 * j, k)] = [c[0], c[1], m0, m1]
                dst[(i, 2 * j + 1, k)] = [m0, m1, c[2], c[3]]
        return r, lambda i, j, k: [(i, 2 * j, k), (i, 2 * j + 1, k)]


def _cum(vals):
    out = [F(0)]
    for v in vals:
        out.append(out[-1] + v)
    return out


def bc_arrays(case):
    """block-centred keyword data (exact): dx[i], dy[j], dz[(i,j,k)], tops / depthz"""
    s = F(case["scale"])
    nx, ny, nz = case["nx"], case["ny"], case["nz"]
    dx = [s * v for v in case["dx"]]
    dy = [s * v for v in case["dy"]]
    base, (a, b, c) = case["dz_base"], case["dz_mix"]
    if case["zform"] == "V":
        a = b = 0
    dz = {}
    for k in range(nz):
        for j in range(ny):
            for i in range(nx):
                kk = min(k, case["zlayers"] - 1) if case["zform"] == "DL" else k
                dz[(i, j, k)] = s * base[(a * i + b * j + c * kk) % len(base)]
    zc = case.get("zerocol")
    if zc and case["zform"] != "V":
        for k in range(nz):
            dz[(zc[0], zc[1], k)] = F(0)
    tb, (ta, tc) = case["top_base"], case["top_mix"]
    top0 = s * case["top0"]

    def tv(i, j):
        return top0 + s * tb[(ta * i + tc * j + (i * j) % 2) % len(tb)]
    return dx, dy, dz, tv


def build_ref(case):
    nx, ny, nz = case["nx"], case["ny"], case["nz"]
    r = Ref(nx, ny, nz)
    s = F(case["scale"])
    if case["kind"] == "bc":
        dx, dy, dz, tv = bc_arrays(case)
        r.xs, r.ys = _cum(dx), _cum(dy)
        if case["top"] == "DEPTHZ":
            zs = _cum([dz[(0, 0, k)] for k in range(nz)])
            for (i, j, k) in r.cells():
                nodes = [tv(i, j), tv(i + 1, j), tv(i, j + 1), tv(i + 1, j + 1)]
                r.ztop[(i, j, k)] = [d + zs[k] for d in nodes]
                r.zbot[(i, j, k)] = [d + zs[k] + dz[(0, 0, k)] for d in nodes]
        else:
            gaps = [s * g for g in case["gaps"]] if case["top"] == "TOPSN" else [F(0)] * (nz - 1)
            for j in range(ny):
                for i in range(nx):
                    z = tv(i, j)
                    for k in range(nz):
                        r.ztop[(i, j, k)] = [z] * 4
                        z = z + dz[(i, j, k)]
                        r.zbot[(i, j, k)] = [z] * 4
                        if k < nz - 1:
                            z = z + gaps[k]
        r.default_pillars()
        return r
    # corner point: affine interfaces over the rectangle, per-column fault throw, global shear
    dx = [s * v for v in case["dx"]]
    dy = [s * v for v in case["dy"]]
    ox, oy = [s * v for v in case.get("origin", [0, 0])]
    r.xs, r.ys = [ox + v for v in _cum(dx)], [oy + v for v in _cum(dy)]
    Lx, Ly = r.xs[-1] - ox, r.ys[-1] - oy
    r.sx, r.sy = F(case["shear"][0], 16), F(case["shear"][1], 16)
    top0 = s * case["top0"]
    r.zref = top0
    fb, (fa, fc) = case["fault_base"], case["fault_mix"]
    gaps = [s * g for g in case["gaps"]]

    def aff(c0, a, b, x, y):
        return c0 + a * (x - ox) / Lx + b * (y - oy) / Ly
    for j in range(ny):
        for i in range(nx):
            throw = s * fb[(fa * i + fc * j + (i * j) % 2) % len(fb)]
            nodes = [(r.xs[i], r.ys[j]), (r.xs[i + 1], r.ys[j]), (r.xs[i], r.ys[j + 1]), (r.xs[i + 1], r.ys[j + 1])]
            z = [aff(top0, s * case["surf0"][0], s * case["surf0"][1], x, y) + throw for (x, y) in nodes]
            for k in range(nz):
                t00, a, b = case["layers"][k]
                th = [aff(s * t00, s * a, s * b, x, y) for (x, y) in nodes]
                r.ztop[(i, j, k)] = list(z)
                z = [u + v for u, v in zip(z, th)]
                r.zbot[(i, j, k)] = list(z)
                if k < nz - 1:
                    z = [u + gaps[k] for u in z]
    pads = [s * p for p in case["pillar_pad"]]
    mode = case["pillar"]
    lo, hi = r.zrange()
    if mode == "degenerate" and (r.sx != 0 or r.sy != 0):
        mode = "perpillar"
    q = 0
    for j in range(ny + 1):
        for i in range(nx + 1):
            if mode == "global":
                r.ptop[(i, j)], r.pbot[(i, j)] = lo, hi
            elif mode == "perpillar":
                r.ptop[(i, j)] = lo - pads[q % len(pads)]
                r.pbot[(i, j)] = hi + pads[(q + 1) % len(pads)]
            else:   # vertical pillar given by two identical points
                r.ptop[(i, j)] = r.pbot[(i, j)] = lo
            q += 1
    return r


def inactive_set(case):
    if case["inactive"] is None:
        return set()
    m = int(case["inactive"], 16)
    return {g for g in range(case["nx"] * case["ny"] * case["nz"]) if (m >> g) & 1}


def mapaxes_values(case):
    ma = case["mapaxes"]
    if ma is None:
        return None
    th = ma["rot"] * math.pi / 8
    L = ma["len"]
    q = lambda v: round(v * 16) / 16.0        # exactly representable as float (|v| < 2^20)
    ox, oy = float(ma["o"][0]), float(ma["o"][1])
    x3, y3 = q(ox + L * math.cos(th)), q(oy + L * math.sin(th))
    x1, y1 = q(ox - ma["hand"] * L * math.sin(th)), q(oy + ma["hand"] * L * math.cos(th))
    return [x1, y1, ox, oy, x3, y3]


# ----------------------------------------------------------------------------- deck text
def num(x):
    return repr(float(x))


def block(name, vals, per_line=8):
    out = [name]
    vals = list(vals)
    for p in range(0, len(vals), per_line):
        out.append(" " + " ".join(vals[p:p + per_line]))
    out.append("/")
    return out


def deck_text(case, body, dims, actnum=True, extras=True):
    nx, ny, nz = dims
    lines = ["RUNSPEC", "DIMENS", " %d %d %d /" % (nx, ny, nz), case["units"], "GRID"]
    if case.get("gridunit"):
        lines += ["GRIDUNIT", " '%s' /" % case["gridunit"]]
    if extras and case["mapaxes"] is not None:
        if case["mapaxes"]["units"]:
            lines += ["MAPUNITS", " %s /" % case["mapaxes"]["units"]]
        lines += block("MAPAXES", [num(v) for v in mapaxes_values(case)])
    lines += body
    if actnum and case["inactive"] is not None:
        ina = inactive_set(case)
        lines += block("ACTNUM", ["0" if g in ina else "1" for g in range(nx * ny * nz)], 20)
    if extras and case["nnc"]:
        lines.append("NNC")
        for g1, g2 in case["nnc"]:
            a = (g1 % nx + 1, (g1 // nx) % ny + 1, g1 // (nx * ny) + 1)
            b = (g2 % nx + 1, (g2 // nx) % ny + 1, g2 // (nx * ny) + 1)
            lines.append(" %d %d %d %d %d %d 1.5 /" % (a + b))
        lines.append("/")
    return "\n".join(lines) + "\n"


def cp_body(ref):
    return block("COORD", [num(v) for v in ref.coord()], 6) + block("ZCORN", [num(v) for v in ref.zcorn()], 8)


def bc_body(case):
    nx, ny, nz = case["nx"], case["ny"], case["nz"]
    dx, dy, dz, tv = bc_arrays(case)
    out = []
    for form, kwv, kwd, val in ((case["xform"], "DXV", "DX", lambda i, j, k: dx[i]),
                                (case["yform"], "DYV", "DY", lambda i, j, k: dy[j]),
                                (case["zform"], "DZV", "DZ", lambda i, j, k: dz[(i, j, k)])):
        if form == "V":
            count = {"DXV": nx, "DYV": ny, "DZV": nz}[kwv]
            out += block(kwv, [num(val(q, q, q)) if kwv != "DZV" else num(dz[(0, 0, q)]) for q in range(count)])
        else:
            layers = 1 if form == "D1" else (case["zlayers"] if form == "DL" else nz)   # "only the top layer is required"
            out += block(kwd, [num(val(i, j, k)) for k in range(layers) for j in range(ny) for i in range(nx)])
    if case["top"] == "DEPTHZ":
        out += block("DEPTHZ", [num(tv(i, j)) for j in range(ny + 1) for i in range(nx + 1)])
    elif case["top"] == "TOPS1":
        out += block("TOPS", [num(tv(i, j)) for j in range(ny) for i in range(nx)])
    else:
        ref = build_ref(case)
        out += block("TOPS", [num(ref.ztop[(i, j, k)][0]) for k in range(nz) for j in range(ny) for i in range(nx)])
    return out


# ----------------------------------------------------------------------------- helpers
def fl(x):
    return hexf(x)


def f32(bits):
    return struct.unpack("<f", struct.pack("<I", bits))[0]


def f32bits(v):
    return struct.unpack("<I", struct.pack("<f", v))[0]


class Viol(Exception):
    def __init__(self, rule, detail, key=None):
        super().__init__(rule)
        self.v = {"rule": rule, "detail": detail, "key": key}


def require(ok, rule, detail, key=None):
    if not ok:
        raise Viol(rule, detail() if callable(detail) else detail, key)


class C13(Check):
    ID = "C13"
    PROBE_GROUP = "grid"
    PROBE_ENV = {"OMP_NUM_THREADS": "4", "OMP_WAIT_POLICY": "passive"}
    THREADS = ("1", "16")            # additional probe processes; the main probe runs with 4
    RULE = ("Grids of (1..7)^3 cells, lengths = integers x {0.25, 0.1, 0.37, 1} deck units, unit system drawn from "
            "METRIC/FIELD/LAB/PVT-M.  Block-centred: DX|DXV, DY|DYV (full or top-layer-only arrays), DZ per cell "
            "or DZV, TOPS for the top layer / for all layers with gaps / DEPTHZ per node (faulted columns).  "
            "Corner-point: rectilinear lattice (arbitrary origin) of parallel pillars (optional global shear up to 0.75, pillars "
            "given by two global points, per-pillar points or a degenerate point pair), layer interfaces affine "
            "over the model with varying thickness, per-column fault throws, gaps between layers.  ACTNUM: none / "
            "one / ~25 % / ~50 % / ~75 % / all cells inactive; 0..6 NNC records; MAPAXES (16 rotations, both "
            "handednesses) with or without MAPUNITS; EGRID formatted or unformatted; probes with 1, 4 and 16 "
            "OpenMP threads.  Non-trivial: non-uniform spacing and >= 1 inactive cell and (corner-point) a fault or "
            "a shear; distinct = distinct generated case."
            " Extended during the build phase: GRIDUNIT, DZ for the first L layers only, a completely pinched-out column, the volume cache filled under another mask of the same count first, and every layer surface read through EGrid::getXYZ_layer by a reader that has not loaded ZCORN.")
    ASSUMPTIONS = [
        "cells have strictly positive thickness at every corner - except one whole column of a block-centred grid, which may be pinched out completely (DZ = 0) - and layers do not overlap (fixupZCORN has nothing to repair)",
        "DX depends on i only, DY on j only (conforming block-centred grid); DZ may vary per cell",
        "corner-point cells have planar faces: all pillars are parallel and interfaces are affine per cell",
        "exact volume = footprint area x mean corner thickness; tolerances are condition-number based "
        "(2048 eps x 3 L/ext for volumes, 64 eps L for positions)",
        "EGRID stores REAL: COORD/ZCORN compared to 2^-24 relative (unformatted) / 1.7e-7 (formatted, 8 digits)",
        "EclipseGrid::save refuses the PVT-M unit system (documented throw); counted as class save:refused, not judged",
        "radial/spider grids, GDFILE, LGRs, numerical aquifers, PINCH/MINPV are out of scope",
    ]
    EXHAUSTIVE = False
    EXAMPLES = {"quick": 150, "thorough": 1500}
    MIN_EVALS = {"quick": 1500, "thorough": 10000}
    TIME_CAP = {"quick": 150, "thorough": 1100}
    LEVEL_TEXT = ("Generated-input search with an exact rational reference model of corner-point geometry.  Every "
                  "cell of every generated grid is checked: index maps against g = i + nx (j + ny k) and the rank of "
                  "g among ACTNUM > 0 (five routes incl. ActiveGridCells and the EGrid reader); volumes against "
                  "area x mean thickness; block-centred input against its own COORD/ZCORN rendering (volumes, "
                  "centres, depths, cell dimensions, corner points); additivity under splitting every cell in k "
                  "and in i or j; bitwise equality of activeVolume() and cached cell volumes between probe "
                  "processes running 1, 4 and 16 OpenMP threads; save -> EclipseGrid(file) / EGrid / raw arrays "
                  "for geometry to float precision, ACTNUM, dimensions, MAPAXES/MAPUNITS, GRIDUNIT and the NNC list.")
    LEVEL_NOTE = ("Sampled, not exhaustive: (1..7)^3 cells, planar-faced cells only.  A data race in the OpenMP loop "
                  "would be seen only if it changes a value in one of the three runs.  Trusted: the rational "
                  "reference model and the Eclipse array orderings it encodes.")
    TECHNIQUE = ("property-based testing (Hypothesis) with an exact reference model, metamorphic relations "
                 "(input-form equivalence, subdivision additivity, thread-count invariance) and a file round trip")

    def strategy(self, tier):
        return case_strategy(tier)

    def enumerate(self, tier):
        """systematic cross of the discrete options with fixed, non-uniform numbers"""
        variants = [
            ("bc", dict(top="TOPS1", xform="D", yform="V", zform="D")),
            ("bc", dict(top="TOPS1", xform="V", yform="D1", zform="V")),
            ("bc", dict(top="TOPSN", xform="D1", yform="D", zform="D")),
            ("bc", dict(top="DEPTHZ", xform="V", yform="V", zform="V")),
            ("cp", dict(shear=[0, 0], fault_base=[0], fault_mix=[0, 0], pillar="global")),
            ("cp", dict(shear=[5, -9], fault_base=[0], fault_mix=[0, 0], pillar="perpillar")),
            ("cp", dict(shear=[0, 0], fault_base=[0, 40, 7], fault_mix=[1, 2], pillar="degenerate")),
            ("cp", dict(shear=[-12, 3], fault_base=[13, 0, 150], fault_mix=[2, 1], pillar="perpillar")),
        ]
        dims = [(3, 2, 4)] if tier == "quick" else [(3, 2, 4), (1, 1, 1), (2, 7, 3), (7, 1, 2)]
        q = 0
        for (nx, ny, nz) in dims:
            n = nx * ny * nz
            for kind, opt in variants:
                for units in ("METRIC", "FIELD", "LAB", "PVT-M"):
                    for fmt in (False, True):
                        for act in ("none", "some", "all"):
                            q += 1
                            case = {"kind": kind, "nx": nx, "ny": ny, "nz": nz, "units": units,
                                    "scale": SCALES[q % len(SCALES)],
                                    "dx": [3, 7, 2, 11, 5, 13, 4][:nx], "dy": [6, 2, 9, 3, 8, 1, 10][:ny],
                                    "top0": 1000 + 37 * (q % 50), "gaps": [0] * (nz - 1)}
                            if kind == "bc":
                                case.update(dz_base=[2, 5, 3], dz_mix=[1, 2, 1], top_base=[0, 6, 2, 9], top_mix=[1, 3])
                            else:
                                case.update(layers=[[9 + 2 * k, -3 + k, 5 - k] for k in range(nz)], surf0=[20, -14],
                                            pillar_pad=[0, 3, 1])
                                if nz > 1:
                                    case["gaps"][-1] = 8
                            case.update(opt)
                            mask = {"none": None, "all": (1 << n) - 1,
                                    "some": (0x5A3C96E1B7D2F048A5C3 >> (q % 16)) & ((1 << n) - 1)}[act]
                            case["inactive"] = None if mask is None else "%x" % mask
                            case["nnc"] = [[0, n - 1], [n // 2, n // 3], [n - 1, n // 2]]
                            case["mapaxes"] = None if q % 3 == 0 else {
                                "o": [1000 * (q % 7), -500 * (q % 5)], "rot": q % 16, "len": [1, 100, 1000][q % 3],
                                "hand": 1 if q % 4 else -1, "units": [None, "METRES", "FEET", "CM"][q % 4]}
                            case["formatted"] = fmt
                            case["split"] = "ij"[q % 2]
                            case["actroute"] = ["reset", "ctor", "copy", "reset_all"][q % 4]
                            yield case

    def floors(self, tier):
        return {"kind:cp": 0.3, "kind:bc": 0.2, "actnum:some-inactive": 0.3, "save:roundtrip": 0.5,
                "nnc:written": 0.25, "mapaxes:yes": 0.25, "cp:shear": 0.1, "cp:fault": 0.1,
                "threads:compared": 0.9}

    # ------------------------------------------------------------------ classification
    def classify(self, case):
        n = case["nx"] * case["ny"] * case["nz"]
        ina = inactive_set(case)
        labels = ["kind:" + case["kind"], "units:" + case["units"], "fmt" if case["formatted"] else "unfmt"]
        if case.get("gridunit"):
            labels.append("gridunit:%s" % ("same-as-deck" if GRIDUNIT.get(case["units"]) == case["gridunit"] else "differs-from-deck"))
        if case["inactive"] is None:
            labels.append("actnum:none")
        elif len(ina) == 0:
            labels.append("actnum:all-active")
        elif len(ina) == n:
            labels.append("actnum:all-inactive")
        else:
            labels.append("actnum:some-inactive")
        labels.append("size:%s" % ("1" if n == 1 else "<=27" if n <= 27 else "<=125" if n <= 125 else ">125"))
        labels.append("mapaxes:" + ("yes" if case["mapaxes"] else "no"))
        if case["mapaxes"]:
            labels.append("mapunits:" + str(case["mapaxes"]["units"]))
        nonuni = len(set(case["dx"])) > 1 or len(set(case["dy"])) > 1
        special = True
        if case["kind"] == "bc":
            labels += ["bc:x" + case["xform"], "bc:y" + case["yform"], "bc:z" + case["zform"], "bc:" + case["top"]]
            nonuni = nonuni or len(set(case["dz_base"])) > 1
        else:
            shear = case["shear"] != [0, 0]
            fault = len(set(case["fault_base"])) > 1 and case["fault_mix"] != [0, 0]
            if shear:
                labels.append("cp:shear")
            if fault:
                labels.append("cp:fault")
            labels.append("cp:pillar-" + ("perpillar" if case["pillar"] == "degenerate" and shear else case["pillar"]))
            special = shear or fault
        if nonuni:
            labels.append("nonuniform")
        nontriv = nonuni and 0 < len(ina) and special
        return nontriv, None, labels

    def sample_view(self, case):
        v = dict(case)
        if v.get("inactive") and len(v["inactive"]) > 24:
            v["inactive"] = v["inactive"][:24] + "..."
        return v

    # ------------------------------------------------------------------ probes for other thread counts
    def thread_probes(self, ctx):
        extra = getattr(ctx, "_c13_threads", None)
        if extra is None:
            exe = ctx.P.exe
            extra = []
            for t in self.THREADS:
                extra.append((t, self.buffered(Probe(exe, env={"OMP_NUM_THREADS": t, "OMP_WAIT_POLICY": "passive"},
                                                     tmp_root=ctx.tmp))))
            ctx._c13_threads = extra
            old_close = ctx.close

            def close():
                for _, p in extra:
                    p.close()
                old_close()
            ctx.close = close
        return extra

    # ------------------------------------------------------------------ oracle
    def check(self, case, ctx):
        try:
            self.run(case, ctx)
        except Viol as e:
            return e.v
        return None

    @staticmethod
    def buffered(P):
        # (vlib's Probe used to read its pipe byte by byte; it now reads in 64 kB chunks itself)
        return P

    def run(self, case, ctx):
        P = self.buffered(ctx.P)
        self._cur = ctx
        ref = build_ref(case)
        dims = (case["nx"], case["ny"], case["nz"])
        f_deck = float(UNIT_F[case["units"]])
        # length factor of the geometry keywords: the GRIDUNIT one if the deck has that keyword (EclipseGrid applies the
        # ratio grid unit / deck unit to everything it has built), else the deck's
        f = float(GRIDUNIT_F[case["gridunit"]]) if case.get("gridunit") else f_deck
        L, ext = ref.scales()
        L, ext = float(L) * f, float(ext) * f
        cond = 3.0 * L / ext + 3.0
        # positions: a handful of roundings (text -> double, unit conversion, partial sums of <= 8 terms,
        # interpolation along the pillar), each <= eps * L (shear <= 0.75 amplifies z errors by < 1)
        pos_tol = 64 * EPS * max(L, ext)
        # volumes: relative error of an extent is ~ eps L/ext; the library's formula sums 6 x 64 signed
        # products of coordinate differences
        vol_rel = 2048 * EPS * cond
        tol = {"pos": pos_tol, "vol": vol_rel, "f": f, "f_file": f_deck}
        # absolute allowance for volumes (matters only for cells pinched out to zero thickness, whose top and bottom depths
        # are equal up to the position tolerance): 8 x position tolerance x largest horizontal cell area
        xs_, ys_ = [float(x) * f for x in ref.xs], [float(y) * f for y in ref.ys]
        amax = max(xs_[i + 1] - xs_[i] for i in range(len(xs_) - 1)) * max(ys_[j + 1] - ys_[j] for j in range(len(ys_) - 1))
        vabs = 8.0 * pos_tol * amax
        tol["vabs"] = vabs

        deck_cp = deck_text(case, cp_body(ref), dims)
        if case["kind"] == "bc":
            deck_main = deck_text(case, bc_body(case), dims)
        else:
            deck_main = deck_cp
        ext_name = "FEGRID" if case["formatted"] else "EGRID"
        path = os.path.join(ctx.tmp, "C13CASE." + ext_name)
        for p in (path, path + ".2"):
            if os.path.exists(p):
                os.unlink(p)
        obs = P.call("grid_obs", deck=deck_main, save={"path": path, "formatted": case["formatted"], "twice": False})
        g = obs["grid"]
        self.check_indices(case, dims, g, "input grid")
        try:
            self.check_geometry(case, ref, g, tol, "input grid", full=(case["kind"] == "bc"))
        except Viol as e:
            # signature of one specific deviation: TOPS values of lower layers (given explicitly, with
            # gaps between layers) are ignored and the layers are stacked without gaps
            if case["kind"] == "bc" and case["top"] == "TOPSN" and any(case["gaps"]):
                c0 = dict(case)
                c0["gaps"] = [0] * len(case["gaps"])
                try:
                    self.check_geometry(c0, build_ref(c0), g, tol, "input grid", full=True)
                    e.v["key"] = "tops-lower-layers-ignored"
                    e.v["rule"] = ("geometry (input grid): TOPS of the lower layers is ignored (cells are stacked "
                                   "without the gaps the deck specifies)")
                except Viol:
                    pass
            raise
        require(obs["deck_units"].upper() == UNIT_NAME[case["units"]].upper(), "units: deck unit system",
                [obs["deck_units"], case["units"]])

        # (ii) the same grid given as COORD/ZCORN
        if case["kind"] == "bc":
            gb = P.call("grid_obs", deck=deck_cp)["grid"]
            self.check_indices(case, dims, gb, "COORD/ZCORN form")
            self.check_geometry(case, ref, gb, tol, "COORD/ZCORN form", full=True)
            self.compare_forms(g, gb, tol)

        # (i) the same activity through the other public routes (constructor argument, resetACTNUM
        # after the volume cache was filled, copy constructor, resetACTNUM())
        route = case.get("actroute", "reset")
        n = dims[0] * dims[1] * dims[2]
        ina = inactive_set(case)
        if route == "reset_all":
            rcase = dict(case, inactive=None)
            rdeck = deck_main
        else:
            rcase = case
            rdeck = deck_text(case, cp_body(ref) if case["kind"] == "cp" else bc_body(case), dims, actnum=False)
        final_mask = [0 if c in ina else 1 for c in range(n)]
        extra = {}
        if route in ("reset", "copy") and 0 < len(ina) < n and (case.get("nx", 0) + len(ina)) % 2 == 0:
            # the volume cache is filled under ANOTHER mask with the same number of active cells (the final one rotated)
            k_ = 1
            while k_ < n and final_mask[k_:] + final_mask[:k_] == final_mask:
                k_ += 1
            if k_ < n:
                extra["actnum0"] = final_mask[k_:] + final_mask[:k_]
                ctx.label("actroute:cache-filled-under-same-count-mask")
        gr = P.call("grid_actnum", deck=rdeck, route=route, actnum=final_mask, **extra)["grid"]
        self.check_indices(rcase, dims, gr, "activity via " + route)
        act_r = gr["active_index"]
        for c in range(n):
            want = fl(g["vol_direct"][c])
            got = [fl(gr["vol_cached"][c])] + ([fl(gr["active_volume"][act_r[c]])] if act_r[c] >= 0 else [])
            require(all(abs(v - want) <= vol_rel * want + vabs for v in got),
                    "indices (activity via %s): volumes after changing ACTNUM differ from the cell volumes" % route,
                    {"cell": c, "want": want, "got": got})
        require(len(gr["active_volume"]) == gr["nactive"], "indices: activeVolume() size after changing ACTNUM",
                [len(gr["active_volume"]), gr["nactive"]])
        ctx.label("actroute:" + route)

        # (v) thread-count independence: bitwise
        for t, tp in self.thread_probes(ctx):
            r = tp.call("grid_vol", deck=deck_main)
            require(r["active_volume"] == g["active_volume"],
                    "threads: activeVolume() differs between OMP_NUM_THREADS=4 and %s" % t,
                    lambda: self.first_diff(g["active_volume"], r["active_volume"]))
            require(r["vol_cached"] == g["vol_cached"],
                    "threads: getCellVolume differs between OMP_NUM_THREADS=4 and %s" % t,
                    lambda: self.first_diff(g["vol_cached"], r["vol_cached"]))
        ctx.label("threads:compared")

        # (iv) additivity under subdivision
        parent = [fl(v) for v in g["vol_direct"]]
        for axis in ("k", case["split"]):
            sref, children = getattr(ref, "split_" + axis)()
            sdims = (sref.nx, sref.ny, sref.nz)
            sdeck = deck_text(case, cp_body(sref), sdims, actnum=False, extras=False)
            sv = [fl(v) for v in P.call("grid_vol", deck=sdeck, direct=True)["vol_direct"]]
            require(len(sv) == sdims[0] * sdims[1] * sdims[2], "additivity: size of the subdivided grid", len(sv))
            sL, sext = sref.scales()
            srel = 2048 * EPS * (3.0 * float(sL) / float(sext) + 3.0)
            for (i, j, k) in ref.cells():
                c1, c2 = children(i, j, k)
                s = sv[sref.gidx(*c1)] + sv[sref.gidx(*c2)]
                p = parent[ref.gidx(i, j, k)]
                require(abs(s - p) <= (srel + vol_rel) * abs(p) + 2 * vabs,
                        "additivity: children volumes do not sum to the parent (split in %s)" % axis,
                        {"cell": [i, j, k], "parent": p, "children": [sv[sref.gidx(*c1)], sv[sref.gidx(*c2)]],
                         "rel": abs(s - p) / (abs(p) or 1.0), "tol": srel + vol_rel})
            ctx.label("split:" + axis)

        # (vi) save -> load
        if not obs["saved"]:
            refused = case["units"] == "PVT-M" and "not supported" in obs.get("save_error", "")
            require(refused, "save: EclipseGrid::save failed", obs.get("save_error"), "save-throws")
            ctx.label("save:refused-pvtm")
            return
        ctx.label("save:roundtrip")
        ld = P.call("grid_load", path=path)
        self.check_loaded(case, ref, dims, obs, ld, tol, ctx)

    # ---- (i) indices
    def check_indices(self, case, dims, g, who):
        nx, ny, nz = dims
        n = nx * ny * nz
        ina = inactive_set(case)
        want_act = [0 if c in ina else 1 for c in range(n)]
        want_a2g = [c for c in range(n) if c not in ina]
        want_g2a = [-1] * n
        for a, c in enumerate(want_a2g):
            want_g2a[c] = a
        R = "indices (%s): " % who
        require([g["nx"], g["ny"], g["nz"]] == [nx, ny, nz] and g["nxyz"] == [nx, ny, nz] and g["size"] == n,
                R + "dimensions", [g["nx"], g["ny"], g["nz"], g["nxyz"], g["size"]])
        require(g["gidx_ijk"] == list(range(n)), R + "getGlobalIndex(i,j,k) != i + nx*(j + ny*k)",
                lambda: self.first_diff(list(range(n)), g["gidx_ijk"]))
        want_ijk = [[c % nx, (c // nx) % ny, c // (nx * ny)] for c in range(n)]
        require(g["ijk"] == want_ijk, R + "getIJK is not the inverse of getGlobalIndex(i,j,k)",
                lambda: self.first_diff(want_ijk, g["ijk"]))
        require([1 if a > 0 else 0 for a in g["actnum"]] == want_act, R + "getACTNUM differs from the deck's ACTNUM",
                lambda: self.first_diff(want_act, g["actnum"]))
        require(g["nactive"] == len(want_a2g) and g["all_active"] == (len(ina) == 0), R + "number of active cells",
                [g["nactive"], len(want_a2g), g["all_active"]])
        for key in ("cell_active", "cell_active_ijk", "agc_active", "agc_actnum"):
            require(g[key] == want_act, R + "%s differs from ACTNUM > 0" % key, lambda: self.first_diff(want_act, g[key]))
        # mutual inverses (stated), independent of the numbering convention
        a2g = g["global_of_active"]
        require(len(a2g) == g["nactive"] and sorted(a2g) == want_a2g, R + "active set != {g : ACTNUM[g] > 0}",
                {"got": a2g[:50], "want": want_a2g[:50]})
        for a, c in enumerate(a2g):
            require(g["active_index"][c] == a, R + "activeIndex(getGlobalIndex(a)) != a",
                    {"active": a, "global": c, "activeIndex": g["active_index"][c]})
        for c in range(n):
            a = g["active_index"][c]
            require((a == -1) == (c in ina), R + "activeIndex accepts exactly the active cells", {"global": c, "got": a})
            if a >= 0:
                require(a2g[a] == c, R + "getGlobalIndex(activeIndex(g)) != g", {"global": c, "active": a, "back": a2g[a]})
        # the Eclipse numbering: active cells counted in increasing global index
        require(a2g == want_a2g, R + "active cells are not numbered in natural (global index) order",
                lambda: self.first_diff(want_a2g, a2g))
        for key in ("active_map", "compressed_identity"):
            require(g[key] == want_a2g, R + key + " differs from the active->global map",
                    lambda: self.first_diff(want_a2g, g[key]))
        for key in ("active_index", "active_index_ijk", "agc_local", "agc_local_ijk"):
            require(g[key] == want_g2a, R + key + " differs from the global->active map",
                    lambda: self.first_diff(want_g2a, g[key]))

    @staticmethod
    def first_diff(a, b):
        if len(a) != len(b):
            return {"len_want": len(a), "len_got": len(b)}
        for q, (u, v) in enumerate(zip(a, b)):
            if u != v:
                return {"index": q, "want": u, "got": v}
        return None

    # ---- (ii)/(iii) geometry against the reference
    def check_geometry(self, case, ref, g, tol, who, full, rel_extra=0.0, pos_extra=0.0):
        f = tol["f"]
        R = "geometry (%s): " % who
        vrel = tol["vol"] + rel_extra
        ptol = tol["pos"] + pos_extra
        act = g["active_index"]
        av = [fl(v) for v in g["active_volume"]]
        worst = 0.0
        V = ref.vals(f)
        for (i, j, k) in ref.cells():
            c = ref.gidx(i, j, k)
            want = V["vol"][c]
            for key in ("vol_direct", "vol_ijk", "vol_cached"):
                got = fl(g[key][c])
                if want == 0:
                    # a cell pinched out completely (zero thickness at every corner) has no volume
                    # (top and bottom depths are sums of the layers above: equal up to the position tolerance)
                    zero_tol = tol.get("vabs", 0.0) + 8.0 * ptol * V["dims"][c][0] * V["dims"][c][1]
                    require(abs(got) <= zero_tol, R + "volume of a cell of zero thickness is not zero",
                            {"cell": [i, j, k], key: got, "tol": zero_tol})
                    continue
                require(got > 0 and math.isfinite(got), R + "cell volume is not positive", {"cell": [i, j, k], key: got})
                err = abs(got - want) / want
                require(err <= vrel, R + "%s differs from area x mean thickness" % key,
                        {"cell": [i, j, k], "got": got, "want": want, "rel": err, "tol": vrel})
                worst = max(worst, err / vrel)
            if act[c] >= 0 and act[c] < len(av):
                got = av[act[c]]
                require(abs(got - want) <= vrel * want + tol.get("vabs", 0.0), R + "activeVolume()[activeIndex] differs from the cell volume",
                        {"cell": [i, j, k], "got": got, "want": want})
            # corner points
            wc = V["corners"][c]
            gc = g["corners"][c]
            for q in range(8):
                for d in range(3):
                    w = wc[q][d]
                    got = fl(gc[q][d])
                    require(abs(got - w) <= ptol, R + "getCornerPos differs from the point on the pillar",
                            {"cell": [i, j, k], "corner": q, "dim": d, "got": got, "want": w, "tol": ptol})
            if full:
                # block-centred cell: a box (DEPTHZ: a vertical prism with translated top/bottom)
                wcen, wdim = V["center"][c], V["dims"][c]
                for key in ("center", "center_ijk"):
                    got = [fl(v) for v in g[key][c]]
                    require(all(abs(a - b) <= ptol for a, b in zip(got, wcen)), R + key + " of a block-centred cell",
                            {"cell": [i, j, k], "got": got, "want": wcen, "tol": ptol})
                for key in ("depth", "depth_ijk"):
                    got = fl(g[key][c])
                    require(abs(got - wcen[2]) <= ptol, R + key + " of a block-centred cell",
                            {"cell": [i, j, k], "got": got, "want": wcen[2], "tol": ptol})
                got = [fl(v) for v in g["dims"][c]]
                require(all(abs(a - b) <= 2 * ptol for a, b in zip(got, wdim)), R + "getCellDims of a block-centred cell",
                        {"cell": [i, j, k], "got": got, "want": wdim, "tol": 2 * ptol})
                got = fl(g["thickness"][c])
                require(abs(got - wdim[2]) <= 2 * ptol, R + "getCellThickness of a block-centred cell",
                        {"cell": [i, j, k], "got": got, "want": wdim[2]})
        cur = getattr(self, "_cur", None)
        if cur is not None and who == "input grid":
            # how much of the volume tolerance the unchanged library uses (calibration evidence)
            cur.label("voltol-used:" + ("<1%" if worst < 0.01 else "<10%" if worst < 0.1 else "<50%" if worst < 0.5 else ">=50%"))
        # ZCORN is geometry (corner depths); COORD is a parametrisation and is compared through the corners
        if "zcorn" in g:
            wz = V["zcorn"]
            gz = g["zcorn"]
            require(len(gz) == len(wz), R + "ZCORN size", [len(gz), len(wz)])
            for q in range(len(wz)):
                require(abs(fl(gz[q]) - wz[q]) <= ptol, R + "getZCORN differs from the corner depths",
                        {"index": q, "got": fl(gz[q]), "want": wz[q], "tol": ptol})
            require(len(g["coord"]) == 6 * (ref.nx + 1) * (ref.ny + 1), R + "COORD size", len(g["coord"]))
        return worst

    def compare_forms(self, ga, gb, tol):
        R = "input forms: "
        for key in ("nx", "ny", "nz", "nactive", "actnum", "active_map"):
            require(ga[key] == gb[key], R + key + " differs between DX/DY/DZ form and COORD/ZCORN form", [ga[key], gb[key]])
        n = ga["size"]
        for c in range(n):
            a, b = fl(ga["vol_direct"][c]), fl(gb["vol_direct"][c])
            require(abs(a - b) <= 2 * tol["vol"] * abs(a), R + "cell volume differs between the two input forms",
                    {"cell": c, "bc": a, "cp": b})
            for key, m in (("center", 2), ("dims", 4)):
                va, vb = [fl(v) for v in ga[key][c]], [fl(v) for v in gb[key][c]]
                require(all(abs(u - v) <= m * tol["pos"] for u, v in zip(va, vb)),
                        R + key + " differs between the two input forms", {"cell": c, "bc": va, "cp": vb})
            a, b = fl(ga["depth"][c]), fl(gb["depth"][c])
            require(abs(a - b) <= 2 * tol["pos"], R + "depth differs between the two input forms", {"cell": c, "bc": a, "cp": b})

    # ---- (vi) file round trip
    def check_loaded(self, case, ref, dims, obs, ld, tol, ctx):
        g0 = obs["grid"]
        g1, eg, fi = ld["grid"], ld["egrid"], ld["file"]
        nx, ny, nz = dims
        n = nx * ny * nz
        f = tol["f_file"]       # the file is written in the deck's units (its GRIDUNIT record says so)
        rel = REL_FMT if case["formatted"] else REL_UNFMT
        R = "round trip: "
        self.check_indices(case, dims, g1, "EclipseGrid(file)")
        # units
        require(fi["gridunit"][0].strip() == GRIDUNIT[case["units"]], R + "GRIDUNIT of the file",
                [fi["gridunit"], case["units"]])
        require(eg["formatted"] == case["formatted"], R + "formatted flag", eg["formatted"])
        if "xyz_layer_mismatch" in eg:
            require(not eg["xyz_layer_mismatch"] and not eg["xyz_layer_error"],
                    R + "EGrid::getXYZ_layer (one surface read from the file) differs from EGrid::getCellCorners",
                    {"mismatch": eg["xyz_layer_mismatch"], "error": eg["xyz_layer_error"], "dims": dims})
            if eg["xyz_layer_checked"]:
                ctx.label("egrid:surface-by-surface-read")
        require(fi["gridhead"][1:4] == [nx, ny, nz] and eg["dimension"] == [nx, ny, nz] and eg["total_cells"] == n,
                R + "dimensions", [fi["gridhead"][:4], eg["dimension"]])
        # activity
        ina = inactive_set(case)
        want_act = [0 if c in ina else 1 for c in range(n)]
        require(fi["actnum"] is not None and [1 if a > 0 else 0 for a in fi["actnum"]] == want_act,
                R + "ACTNUM array of the file", lambda: self.first_diff(want_act, fi["actnum"] or []))
        require(eg["active_cells"] == n - len(ina), R + "EGrid::activeCells", eg["active_cells"])
        want_g2a = g0["active_index"]
        require(eg["active_index"] == want_g2a, R + "EGrid::active_index", lambda: self.first_diff(want_g2a, eg["active_index"]))
        require(eg["global_index"] == list(range(n)), R + "EGrid::global_index", None)
        want_ijk = [[c % nx, (c // nx) % ny, c // (nx * ny)] for c in range(n)]
        require(eg["ijk_from_global"] == want_ijk, R + "EGrid::ijk_from_global_index", None)
        require(eg["ijk_from_active"] == [want_ijk[c] for c in range(n) if c not in ina], R + "EGrid::ijk_from_active_index", None)
        # geometry arrays to float precision: file (deck units) and loaded grid (SI) against the saved grid
        c0 = [fl(v) for v in g0["coord"]]
        z0 = [fl(v) for v in g0["zcorn"]]
        for name, src, fvals, lvals in (("COORD", c0, fi["coord"], g1["coord"]), ("ZCORN", z0, fi["zcorn"], g1["zcorn"])):
            require(len(fvals) == len(src) and len(lvals) == len(src), R + name + " size", [len(src), len(fvals), len(lvals)])
            for q, v in enumerate(src):
                a = f32(fvals[q]) * f
                require(abs(a - v) <= rel * abs(v) + 1e-30, R + name + " of the file (in GRIDUNIT units) differs from the grid",
                        {"index": q, "file_value_SI": a, "grid": v, "rel": abs(a - v) / (abs(v) + 1e-300), "tol": rel})
                b = fl(lvals[q])
                require(abs(b - v) <= rel * abs(v) + 1e-30, R + name + " of EclipseGrid(file) differs from the saved grid",
                        {"index": q, "loaded": b, "saved": v, "rel": abs(b - v) / (abs(v) + 1e-300), "tol": rel})
        # derived geometry of the loaded grid: every stored number moved by <= d = rel * L; a corner on a
        # sheared pillar X = xt (1-t) + xb t, t = (zt-Z)/(zt-zb), |xb-xt|/|zt-zb| <= 0.75 moves by
        # <= d + 0.75 * 4 d = 4 d; an extent by <= 8 d, a volume by <= 3 * 8 d / ext <= 8 rel cond
        L = tol["pos"] / (64 * EPS)
        cond = tol["vol"] / (2048 * EPS)
        self.check_geometry(case, ref, g1, tol, "EclipseGrid(file)", full=(case["kind"] == "bc"),
                            rel_extra=8 * rel * cond, pos_extra=4 * rel * L)
        # the EGrid reader's own corner computation
        for c in range(n):
            for q in range(8):
                for d in range(3):
                    a, b = fl(eg["corners"][c][q][d]) * f, fl(g0["corners"][c][q][d])
                    require(abs(a - b) <= 4 * rel * L + tol["pos"], R + "EGrid::getCellCorners differs from the saved grid",
                            {"cell": c, "corner": q, "dim": d, "egrid_SI": a, "saved": b})
        # map axes
        want_ma = mapaxes_values(case)
        if want_ma is None:
            require(fi["mapaxes"] is None and fi["mapunits"] is None and g1["mapaxes"] is None and eg["mapaxes"] == [],
                    R + "MAPAXES appears although the deck has none", [fi["mapaxes"], g1["mapaxes"]])
        else:
            bits = [f32bits(v) for v in want_ma]
            require(g0["mapaxes"] is not None and g0["mapaxes"]["input"] == bits, "mapaxes: input grid",
                    [g0["mapaxes"], want_ma])
            # unformatted: the same floats; formatted: floats printed with 8 significant digits
            def same(got):
                if not case["formatted"]:
                    return got == bits
                return got is not None and len(got) == 6 and all(
                    abs(f32(a) - w) <= (5.0e-8 * 1.001 + 2.0 ** -24) * abs(w) for a, w in zip(got, want_ma))
            require(same(fi["mapaxes"]) and same(eg["mapaxes"]), R + "MAPAXES of the file", [fi["mapaxes"], want_ma])
            require(g1["mapaxes"] is not None and same(g1["mapaxes"]["input"]), R + "MAPAXES of EclipseGrid(file)",
                    [g1["mapaxes"], want_ma])
            mu = case["mapaxes"]["units"]
            got_mu = [g0["mapaxes"]["mapunits"], fi["mapunits"], g1["mapaxes"]["mapunits"], eg["mapunits"] or None]
            require(all((m.strip() if m else None) == mu for m in got_mu), R + "MAPUNITS", [got_mu, mu])
            t0 = [[fl(v) for v in p] for p in g0["mapaxes"]["transform"]]
            t1 = [[fl(v) for v in p] for p in g1["mapaxes"]["transform"]]
            # transform() of three points within 100 of the origin; formatted input moves the six
            # numbers by 1.1e-7 relative, which the normalisation of a unit vector of length `len`
            # amplifies by |origin| / len
            mt = 1e-9 if not case["formatted"] else 4 * REL_FMT * (1 + 100 * max(abs(v) for v in want_ma) / case["mapaxes"]["len"])
            require(all(abs(a - b) <= mt * (1 + abs(a)) for p, q in zip(t0, t1) for a, b in zip(p, q)),
                    R + "MapAxes::transform differs after the round trip", [t0, t1])
        # NNC
        want_nnc = []
        for g1_, g2_ in case["nnc"]:
            if g1_ in ina or g2_ in ina:
                continue
            want_nnc.append((min(g1_, g2_), max(g1_, g2_)))
        want_nnc.sort()
        got_in = [(a, b) for a, b, _ in obs["nnc_input"]]
        require(got_in == want_nnc, "nnc: NNC::input() differs from the deck's NNC records between active cells",
                {"got": got_in, "want": want_nnc})
        want_ijk_nnc = [want_ijk[a] + want_ijk[b] for a, b in want_nnc]
        require(eg["nnc_ijk"] == want_ijk_nnc, R + "EGrid::get_nnc_ijk differs from the saved NNC list",
                {"got": eg["nnc_ijk"], "want": want_ijk_nnc})
        if want_nnc:
            require(fi["NNC1"] == [a + 1 for a, _ in want_nnc] and fi["NNC2"] == [b + 1 for _, b in want_nnc]
                    and fi["NNCHEAD"] is not None and fi["NNCHEAD"][0] == len(want_nnc),
                    R + "NNCHEAD/NNC1/NNC2 arrays", [fi["NNCHEAD"], fi["NNC1"], fi["NNC2"]])
            ctx.label("nnc:written")
        else:
            require(fi["NNC1"] is None or fi["NNC1"] == [], R + "NNC1 present without NNCs", fi["NNC1"])
