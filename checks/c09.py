"""C09 - Summary vectors obey their definitions, accumulation and group hierarchy laws.

out::Summary::eval is driven directly (probe command summary_run) with generated simulator results; the values
read back from the SummaryState are compared with an independent accumulator written from the documented rules
(property statement + DESIGN.md C09 + the comment block "The well efficiency factor will not impact the well
rate itself ..." in Summary.cpp, which is the specification of how WEFAC/GEFAC enter rates and totals).
"""
import datetime
import math

from hypothesis import strategies as st

from vlib import refunits as RU
from vlib.probe import hexf
from vlib.runner import Check, sha

# --------------------------------------------------------------------------------------------------------------
# vector families (property: W/G/F x {O,W,G,L,V} x {P,I} x {R,T,RH,TH} and ratios).  Only names that the deck
# parser accepts in the SUMMARY section and that the evaluator supports are listed (WLIR/GLIR/.., V-history,
# GOITH, G/F WGR/OGR do not exist in either table and are therefore not requested).
# --------------------------------------------------------------------------------------------------------------
PH = "OWG"
W_KEYS = (["W%sPR" % p for p in "OWGLV"] + ["W%sIR" % p for p in "OWGV"] +
          ["W%sPT" % p for p in "OWGLV"] + ["W%sIT" % p for p in "OWGV"] +
          ["W%sPRH" % p for p in "OWGL"] + ["W%sIRH" % p for p in "OWG"] +
          ["W%sPTH" % p for p in "OWGL"] + ["W%sITH" % p for p in "OWG"] +
          ["WWCT", "WGOR", "WGLR", "WWGR", "WOGR", "WWCTH", "WGORH", "WGLRH", "WWGRH"])
G_KEYS = (["G%sPR" % p for p in "OWGLV"] + ["G%sIR" % p for p in "OWGV"] +
          ["G%sPT" % p for p in "OWGLV"] + ["G%sIT" % p for p in "OWGV"] +
          ["G%sPRH" % p for p in "OWGL"] + ["G%sIRH" % p for p in "OWG"] +
          ["G%sPTH" % p for p in "OWGL"] + ["GWITH", "GGITH"] +
          ["GWCT", "GGOR", "GGLR", "GWCTH", "GGORH", "GGLRH"])
F_KEYS = (["F%sPR" % p for p in "OWGLV"] + ["F%sIR" % p for p in "OWGV"] +
          ["F%sPT" % p for p in "OWGLV"] + ["F%sIT" % p for p in "OWGV"] +
          ["F%sPRH" % p for p in "OWGL"] + ["F%sIRH" % p for p in "OWG"] +
          ["F%sPTH" % p for p in "OWGL"] + ["F%sITH" % p for p in "OWG"] +
          ["FWCT", "FGOR", "FGLR", "FWCTH", "FGORH", "FGLRH"])
T_KEYS = ["TIME", "YEARS", "DAY", "MONTH", "YEAR", "TIMESTEP"]

EFACS = [1.0, 0.5, 0.25, 0.75, 0.9, 0.1, 0.625, 0.3]
KINDS_HIST = ["PH", "PH", "PH", "IHW", "IHG", "IHO"]
KINDS_ALL = ["PH", "PH", "PP", "PP", "IHW", "IHG", "IPW", "IPG", "IPO"]
MONTHS = ["JAN", "FEB", "MAR", "APR", "MAY", "JUN", "JUL", "AUG", "SEP", "OCT", "NOV", "DEC"]
STARTS = [[2007, 5, 10], [2000, 2, 28], [2023, 12, 31], [1999, 12, 30], [2024, 2, 27], [1983, 1, 1], [2100, 2, 28],
          [2019, 6, 30]]


def is_prod(kind):
    return kind[0] == "P"


def is_hist(kind):
    return kind[1] == "H"


def inj_phase(kind):
    return {"W": "WATER", "G": "GAS", "O": "OIL"}[kind[2]]


# ------------------------------------------------------------------------------------------------ generator
rate_int = st.one_of(st.just(0), st.integers(-60, 400), st.integers(1, 400))
hist_int = st.one_of(st.just(0), st.integers(1, 800))


def tree_depth(parents, g):
    """FIELD = 0, its children 1, ..."""
    d = 0
    while g >= 0:
        d += 1
        g = parents[g]
    return d


def tree_desc(parents, g):
    """g and all groups below it"""
    out = [g]
    for x in out:
        out.extend(c for c in range(len(parents)) if parents[c] == x)
    return out


def tree_height(parents, g):
    return max(tree_depth(parents, x) for x in tree_desc(parents, g)) - tree_depth(parents, g)


def tree_leaves(parents):
    return [i for i in range(len(parents)) if i not in parents]


@st.composite
def case_strategy(draw, tier):
    units = draw(st.sampled_from(RU.SYSTEMS))
    ngroups = draw(st.integers(1, 7))
    parents, depth = [], []
    for i in range(ngroups):
        cands = [-1] + [j for j in range(i) if depth[j] < 4]
        if i > 0 and depth[i - 1] < 4 and draw(st.integers(0, 2)) > 0:
            p = i - 1                                   # bias towards deep chains
        else:
            p = draw(st.sampled_from(cands))
        parents.append(p)
        depth.append(1 if p < 0 else depth[p] + 1)
    cur_parents = list(parents)
    nwells = draw(st.integers(2, 8))
    nsteps = draw(st.integers(1, 5 if tier == "quick" else 7))
    allhist = draw(st.booleans())
    wells = []
    for w in range(nwells):
        kind = draw(st.sampled_from(KINDS_HIST if allhist else KINDS_ALL))
        frm = 0
        if w >= 2 and nsteps > 1 and draw(st.integers(0, 3)) == 0:
            frm = draw(st.integers(1, nsteps - 1))      # well created at a later report step
        wells.append({"kind": kind, "from": frm})
    wgroup = [None] * nwells
    steps = []
    for s in range(nsteps):
        stp = {"dt8": draw(st.one_of(st.integers(1, 16), st.integers(1, 4000))), "dates": draw(st.booleans())}
        # --- hierarchy events, in the order in which the deck states them: GRUPTREE, then WELSPECS
        regroup = []
        if s > 0 and ngroups >= 2 and draw(st.integers(0, 3)) == 0:
            g = draw(st.integers(0, ngroups - 1))
            below = tree_desc(cur_parents, g)
            h = tree_height(cur_parents, g)
            cands = [p for p in [-1] + list(range(ngroups))
                     if p not in below and p != cur_parents[g] and (p < 0 or p not in wgroup)
                     and tree_depth(cur_parents, p) + 1 + h <= 4]
            if cands:
                p = draw(st.sampled_from(cands))
                cur_parents[g] = p
                regroup.append([g, p])
        stp["regroup"] = regroup
        leaves = tree_leaves(cur_parents)
        new, move = [], []
        for w in range(nwells):
            if wells[w]["from"] == s:
                if s == 0 and w == 0:
                    g = max(leaves, key=lambda x: tree_depth(cur_parents, x))
                else:
                    g = draw(st.sampled_from(leaves))
                wgroup[w] = g
                new.append([w, g])
            elif wgroup[w] is not None and draw(st.integers(0, 11)) == 0:
                cands = [g for g in leaves if g != wgroup[w]]
                if cands:
                    g = draw(st.sampled_from(cands))
                    wgroup[w] = g
                    move.append([w, g])
        stp["new"], stp["move"] = new, move
        live = [w for w in range(nwells) if wgroup[w] is not None]
        stp["wefac"] = [[w, draw(st.sampled_from(EFACS)), draw(st.sampled_from(["", "", "YES", "NO"]))] for w in live
                        if draw(st.integers(0, 9)) < (5 if s == 0 else 2)]
        # third entry: GEFAC item 3 (transfer the factor to the extended network: no influence on any summary vector)
        stp["gefac"] = [[g, draw(st.sampled_from(EFACS)), draw(st.sampled_from(["", "", "YES", "NO"]))] for g in range(ngroups)
                        if draw(st.integers(0, 9)) < (5 if s == 0 else 2)]
        status = []
        for w in live:
            if draw(st.integers(0, 9)) < (3 if s == 0 else 2):
                opts = ["SHUT", "OPEN"] if is_hist(wells[w]["kind"]) else ["SHUT", "OPEN", "STOP"]
                status.append([w, draw(st.sampled_from(opts))])
        stp["status"] = status
        hist = []
        for w in live:
            k = wells[w]["kind"]
            if is_hist(k) and (wells[w]["from"] == s or draw(st.integers(0, 9)) < 7):
                hist.append([w, [draw(hist_int) for _ in range(3 if is_prod(k) else 1)]])
        stp["hist"] = hist
        nsub = draw(st.sampled_from([1, 1, 2, 3]))
        cuts = sorted(set(draw(st.lists(st.integers(1, 9), min_size=nsub - 1, max_size=nsub - 1)))) + [10]
        evs = []
        for c in cuts:
            sim = []
            for w in range(nwells):
                mode = draw(st.sampled_from(["ok", "ok", "ok", "ok", "ok", "dynshut", "absent"]))
                if wgroup[w] is None:
                    mode = "absent"                     # the simulator cannot report a well that does not exist yet
                sim.append([mode, [draw(rate_int) for _ in range(6)]])
            evs.append({"c": c, "sim": sim, "again": draw(st.integers(0, 19)) == 0})
        stp["evals"] = evs
        steps.append(stp)
    init = None
    if draw(st.booleans()):
        init = [[draw(st.sampled_from(["ok", "ok", "absent", "dynshut"])) if wells[w]["from"] == 0 else "absent",
                 [draw(rate_int) for _ in range(6)]] for w in range(nwells)]
    return {"units": units, "start": draw(st.sampled_from(STARTS)), "parents": parents, "wells": wells,
            "steps": steps, "init": init, "dup_summary": draw(st.integers(0, 4)) == 0,
            "udq_flit": draw(st.sampled_from([False] * 7 + [True]))}


# ------------------------------------------------------------------------------------------------ model
class Model:
    """Everything the oracle knows about one case, derived from the case value only."""

    def __init__(self, case):
        self.case = case
        u = case["units"]
        B = RU.BASE[u]
        self.tunit = B["Time"][0]                          # seconds per deck time unit
        self.vol = {"O": B["LiquidSurfaceVolume"][0], "W": B["LiquidSurfaceVolume"][0],
                    "G": B["GasSurfaceVolume"][0], "R": B["ReservoirVolume"][0]}
        self.ng = len(case["parents"])
        self.gnames = ["G%d" % (i + 1) for i in range(self.ng)]
        self.wells = case["wells"]
        self.nw = len(self.wells)
        self.wnames = ["W%d" % (i + 1) for i in range(self.nw)]
        # schedule state per report step (hierarchy, efficiency factors, status, history rates)
        parents = list(case["parents"])
        wgroup = [None] * self.nw
        wef = [1.0] * self.nw
        gef = [1.0] * self.ng
        stat = ["OPEN"] * self.nw
        hist = [[0.0, 0.0, 0.0] for _ in range(self.nw)]
        self.sched = []
        self.tsecs = [0]
        assert int(self.tunit) % 8 == 0
        for stp in case["steps"]:
            for g, p in stp["regroup"]:
                parents[g] = p
            for w, g in stp["new"] + stp["move"]:
                wgroup[w] = g
            for w, f, *_ in stp["wefac"]:
                wef[w] = f
            for g, f, *_ in stp["gefac"]:
                gef[g] = f
            for w, x in stp["status"]:
                stat[w] = x
            for w, h in stp["hist"]:
                hist[w] = [0.5 * x for x in h]
            self.sched.append({"parents": list(parents), "wgroup": list(wgroup), "wef": list(wef), "gef": list(gef),
                               "stat": list(stat), "hist": [list(h) for h in hist]})
            # dt8 eighths of the deck time unit: whole seconds in every unit system (day/8 = 10800 s, hour/8 = 450 s)
            self.tsecs.append(self.tsecs[-1] + stp["dt8"] * int(self.tunit) // 8)
        self.maxdepth = max(tree_depth(s["parents"], g) for s in self.sched for g in range(self.ng))

    # ---- hierarchy (s = schedule state of one report step)
    def path(self, w, s):
        """groups from the well's own group up to (excluding) FIELD"""
        g = s["wgroup"][w]
        out = []
        while g is not None and g >= 0:
            out.append(g)
            g = s["parents"][g]
        return out

    def efac_full(self, w, s):
        f = s["wef"][w]
        for g in self.path(w, s):
            f *= s["gef"][g]
        return f

    def efac_below(self, w, g0, s):
        """well factor times the factors of the groups strictly below g0 on the well's path"""
        f = s["wef"][w]
        for g in self.path(w, s):
            if g == g0:
                return f
            f *= s["gef"][g]
        raise AssertionError("group not on path")

    def members(self, g0, s):
        return [w for w in range(self.nw) if g0 in self.path(w, s)]

    def ever_member(self, g0):
        return set(w for s in self.sched for w in self.members(g0, s))

    # ---- deck
    def deck(self):
        c = self.case
        y, m, d = c["start"]
        L = ["RUNSPEC", "TITLE", "C09", "DIMENS", " 4 4 1 /", "OIL", "WATER", "GAS", c["units"], "START",
             " %d '%s' %d /" % (d, MONTHS[m - 1], y), "WELLDIMS", " 12 2 10 12 /", "GRID",
             "DX", " 16*100 /", "DY", " 16*100 /", "DZ", " 16*10 /", "TOPS", " 16*2000 /", "PORO", " 16*0.2 /",
             "PERMX", " 16*100 /", "PERMY", " 16*100 /", "PERMZ", " 16*10 /", "PROPS", "SOLUTION", "SUMMARY"]
        for k in W_KEYS + G_KEYS:
            L += [k, "/"]
        L += F_KEYS
        L += ["DATE", "TIMESTEP"]          # DATE = DAY, MONTH, YEAR; TIME and YEARS are always evaluated
        if c["dup_summary"]:
            # the same vectors requested a second time (explicit names / wildcard): still one vector each
            L += ["WOPT", " '%s' /" % self.wnames[0], "WWIT", " 'W*' /", "GOPT", " '%s' /" % self.gnames[0],
                  "GWIT", "/", "FOPT", "FGIT", "WOPR", "/", "WLPT", "/"]
        L.append("SCHEDULE")
        if c.get("udq_flit"):
            # FLIR / FLIT (field liquid injection rate / total) are not SUMMARY-section keywords; a UDQ that uses
            # them makes the evaluator compute them all the same
            L += ["UDQ", " DEFINE FULA FLIT /", " DEFINE FULB FLIR /", "/"]
        L.append("GRUPTREE")
        for i, p in enumerate(c["parents"]):
            L.append(" '%s' '%s' /" % (self.gnames[i], "FIELD" if p < 0 else self.gnames[p]))
        L.append("/")
        cur = datetime.datetime(y, m, d)
        stat = ["OPEN"] * self.nw
        for si, stp in enumerate(c["steps"]):
            if stp["regroup"]:
                L += ["GRUPTREE"] + [" '%s' '%s' /" % (self.gnames[g], "FIELD" if p < 0 else self.gnames[p])
                                     for g, p in stp["regroup"]] + ["/"]
            if stp["new"] or stp["move"]:
                L.append("WELSPECS")
                for w, g in stp["new"] + stp["move"]:
                    k = self.wells[w]["kind"]
                    pref = "OIL" if is_prod(k) else inj_phase(k)
                    L.append(" '%s' '%s' %d %d 1* '%s' /" % (self.wnames[w], self.gnames[g], w % 4 + 1, w // 4 + 1, pref))
                L.append("/")
            if stp["new"]:
                L.append("COMPDAT")
                for w, g in stp["new"]:
                    L.append(" '%s' %d %d 1 1 'OPEN' 1* 1* 0.3 /" % (self.wnames[w], w % 4 + 1, w // 4 + 1))
                L.append("/")
            for w, x in stp["status"]:
                stat[w] = x
            changed = set(w for w, _ in stp["status"])
            hist_now = set(w for w, _ in stp["hist"])
            newset = set(w for w, _ in stp["new"])
            prodh, injh, prodp, injp, welopen = [], [], [], [], []
            for w, wd in enumerate(self.wells):
                if self.sched[si]["wgroup"][w] is None:
                    continue
                k = wd["kind"]
                if is_hist(k):
                    # history wells: status and observed rates travel in WCONHIST / WCONINJH
                    if w in hist_now or w in changed or w in newset:
                        h = self.sched[si]["hist"][w]
                        if is_prod(k):
                            prodh.append(" '%s' '%s' 'ORAT' %r %r %r /" % (self.wnames[w], stat[w], h[0], h[1], h[2]))
                        else:
                            injh.append(" '%s' '%s' '%s' %r /" % (self.wnames[w], inj_phase(k), stat[w], h[0]))
                else:
                    if w in newset:
                        if is_prod(k):
                            prodp.append(" '%s' 'OPEN' 'BHP' 5* 20 /" % self.wnames[w])
                        else:
                            injp.append(" '%s' '%s' 'OPEN' 'BHP' 2* 500 /" % (self.wnames[w], inj_phase(k)))
                    if w in changed:
                        welopen.append(" '%s' '%s' /" % (self.wnames[w], stat[w]))
            for name, recs in (("WCONPROD", prodp), ("WCONINJE", injp), ("WCONHIST", prodh), ("WCONINJH", injh),
                               ("WELOPEN", welopen)):
                if recs:
                    L += [name] + recs + ["/"]
            if stp["wefac"]:
                L += ["WEFAC"] + [" '%s' %r %s/" % (self.wnames[w], f, (x[0] + " ") if x and x[0] else "") for w, f, *x in stp["wefac"]] + ["/"]
            if stp["gefac"]:
                L += ["GEFAC"] + [" '%s' %r %s/" % (self.gnames[g], f, (x[0] + " ") if x and x[0] else "") for g, f, *x in stp["gefac"]] + ["/"]
            nxt = datetime.datetime(y, m, d) + datetime.timedelta(seconds=self.tsecs[si + 1])
            if stp["dates"] and cur.time() == datetime.time(0) and nxt.time() == datetime.time(0):
                L += ["DATES", " %d '%s' %d /" % (nxt.day, MONTHS[nxt.month - 1], nxt.year), "/"]
            else:
                L += ["TSTEP", " %r /" % (stp["dt8"] / 8.0)]
            cur = nxt
        L.append("END")
        return "\n".join(L) + "\n"

    # ---- simulator results handed to eval()
    def evals(self):
        """[(report_step, secs, [per well (mode, signed deck-unit rates O W G RO RW RG)])]"""
        out = []
        c = self.case
        if c["init"] is not None:
            out.append((0, 0, c["init"]))
        for si, stp in enumerate(c["steps"]):
            t0, t1 = self.tsecs[si], self.tsecs[si + 1]
            for ev in stp["evals"]:
                t = t0 + (t1 - t0) * ev["c"] // 10        # (t1-t0) is a multiple of 450 s: whole seconds
                out.append((si + 1, t, ev["sim"]))
                if ev["again"]:
                    out.append((si + 1, t, ev["sim"]))    # second evaluation at the same time: zero-length step
        return out

    def signed(self, w, mode_rates, si):
        """deck-unit signed rates (negative = production) as the simulator would report them"""
        mode, r = mode_rates
        sgn = -1.0 if is_prod(self.wells[w]["kind"]) else 1.0
        if self.sched[si]["stat"][w] == "STOP":
            return [0.0] * 6                               # a stopped well has no surface flow
        return [sgn * 0.25 * x for x in r]

    def wire(self, ev):
        rs, t, sim = ev
        si = max(0, rs - 1)
        ws = []
        for w in range(self.nw):
            mode = sim[w][0]
            sched_stat = self.sched[si]["stat"][w]
            if mode == "absent" or self.sched[si]["wgroup"][w] is None:
                continue
            if sched_stat == "SHUT" or mode == "dynshut":
                code = 2
            elif sched_stat == "STOP":
                code = 1
            else:
                code = 0
            q = self.signed(w, sim[w], si)
            if code == 2:
                q = [0.25 * x for x in sim[w][1]]        # junk carried by a shut well: must be ignored
            # SI: volume unit / time unit
            si_r = [q[0] * self.vol["O"] / self.tunit, q[1] * self.vol["W"] / self.tunit,
                    q[2] * self.vol["G"] / self.tunit]
            si_r += [x * self.vol["R"] / self.tunit for x in q[3:]]
            # data::Rates order of the probe: wat, oil, gas, resv wat, resv oil, resv gas
            arr = [si_r[1], si_r[0], si_r[2], si_r[4], si_r[3], si_r[5]]
            ws.append([self.wnames[w], code, 1 if is_prod(self.wells[w]["kind"]) else 0, [float(x).hex() for x in arr]])
        return {"rs": rs, "t": float(t).hex(), "w": ws}

    def flowing(self, w, sim, si):
        return sim[w][0] == "ok" and self.sched[si]["stat"][w] != "SHUT" and self.sched[si]["wgroup"][w] is not None


def ratio(n, d):
    """None = not asserted beyond finiteness (zero denominator)"""
    return None if d == 0 else n / d


class Reference:
    """accumulator: expected value of every requested vector after each eval, in deck units"""

    def __init__(self, model):
        self.m = model
        self.tot = {}
        self.prev_t = 0

    def add(self, key, v):
        self.tot[key] = self.tot.get(key, 0.0) + v
        return self.tot[key]

    def level(self, prefix, name, contrib_rate, contrib_tot, dt, out):
        """contrib_*: list of (weight, prod[O,W,G], inj[O,W,G], prodV, injV, histprod[O,W,G] or None, histinj or None)
        rates use contrib_rate weights, totals contrib_tot weights (same wells, same order)"""
        def S(lst, f):
            return math.fsum(c[0] * f(c) for c in lst)
        key = (lambda k: k + ":" + name) if name else (lambda k: k)
        R, T = {}, {}
        for tag, lst, D in (("R", contrib_rate, R), ("T", contrib_tot, T)):
            for i, p in enumerate(PH):
                D[p + "P"] = S(lst, lambda c: c[1][i])
                D[p + "I"] = S(lst, lambda c: c[2][i])
                D[p + "PH"] = S(lst, lambda c: c[5][i])
                D[p + "IH"] = S(lst, lambda c: c[6][i])
            D["VP"] = S(lst, lambda c: c[3])
            D["VI"] = S(lst, lambda c: c[4])
            D["LP"] = D["OP"] + D["WP"]
            D["LI"] = D["OI"] + D["WI"]
            D["LPH"] = D["OPH"] + D["WPH"]
        for q in ("OP", "WP", "GP", "LP", "VP", "OI", "WI", "GI", "VI", "LI"):
            out[key(prefix + q + "R")] = R[q]
            out[key(prefix + q + "T")] = self.add(key(prefix + q + "T"), T[q] * dt)
        for q in ("OP", "WP", "GP", "LP", "OI", "WI", "GI"):
            out[key(prefix + q + "RH")] = R[q + "H"]
            out[key(prefix + q + "TH")] = self.add(key(prefix + q + "TH"), T[q + "H"] * dt)
        out[key(prefix + "WCT")] = ratio(R["WP"], R["WP"] + R["OP"])
        out[key(prefix + "GOR")] = ratio(R["GP"], R["OP"])
        out[key(prefix + "GLR")] = ratio(R["GP"], R["WP"] + R["OP"])
        out[key(prefix + "WGR")] = ratio(R["WP"], R["GP"])
        out[key(prefix + "OGR")] = ratio(R["OP"], R["GP"])
        out[key(prefix + "WCTH")] = ratio(R["WPH"], R["WPH"] + R["OPH"])
        out[key(prefix + "GORH")] = ratio(R["GPH"], R["OPH"])
        out[key(prefix + "GLRH")] = ratio(R["GPH"], R["WPH"] + R["OPH"])
        out[key(prefix + "WGRH")] = ratio(R["WPH"], R["GPH"])

    def step(self, ev):
        m = self.m
        rs, t, sim = ev
        si = max(0, rs - 1)                                 # the schedule state in force during report step rs
        s = m.sched[si]
        dt = (t - self.prev_t) / m.tunit                    # deck time units
        self.prev_t = t
        out = {}
        per = []
        for w in range(m.nw):
            k = m.wells[w]["kind"]
            if m.flowing(w, sim, si):
                q = m.signed(w, sim[w], si)
                prod = [max(-x, 0.0) for x in q[:3]]
                inj = [max(x, 0.0) for x in q[:3]]
                pv = math.fsum(max(-x, 0.0) for x in q[3:])
                iv = math.fsum(max(x, 0.0) for x in q[3:])
                hp, hi = [0.0] * 3, [0.0] * 3
                if is_hist(k):
                    h = s["hist"][w]
                    if is_prod(k):
                        hp = list(h)
                    else:
                        hi["OWG".index(k[2])] = h[0]
                per.append((prod, inj, pv, iv, hp, hi))
            else:
                per.append(None)                            # shut / not reported: contributes nothing anywhere
        zero = ([0.0] * 3, [0.0] * 3, 0.0, 0.0, [0.0] * 3, [0.0] * 3)
        for w in range(m.nw):
            c = per[w] or zero
            # well: rates are the raw rates; totals carry WEFAC and every GEFAC above the well
            self.level("W", m.wnames[w], [(1.0,) + c], [(m.efac_full(w, s),) + c], dt, out)
        for g in range(m.ng):
            mem = [w for w in m.members(g, s) if per[w] is not None]
            # group rate: factors strictly below the group; group total: the group's own and its ancestors' as well
            self.level("G", m.gnames[g], [(m.efac_below(w, g, s),) + per[w] for w in mem],
                       [(m.efac_full(w, s),) + per[w] for w in mem], dt, out)
        mem = [w for w in range(m.nw) if per[w] is not None]
        full = [(m.efac_full(w, s),) + per[w] for w in mem]
        self.level("F", "", full, full, dt, out)
        # time and calendar
        y, mo, d = m.case["start"]
        now = datetime.datetime(y, mo, d) + datetime.timedelta(seconds=t)
        out["TIME"] = t / m.tunit
        out["YEARS"] = t / (365.25 * 86400.0)
        out["DAY"], out["MONTH"], out["YEAR"] = float(now.day), float(now.month), float(now.year)
        out["TIMESTEP"] = dt
        return out

    def asserted(self, key, name_idx, level):
        """history vectors are only asserted where every contributing well is a history-matched well
        (what a prediction well echoes is not stated by the property)"""
        m = self.m
        if key in T_KEYS or not key.endswith("H"):
            return True
        if level == "W":
            return is_hist(m.wells[name_idx]["kind"])
        if level == "G":
            return all(is_hist(m.wells[w]["kind"]) for w in m.ever_member(name_idx))
        return all(is_hist(w["kind"]) for w in m.wells)


class C09(Check):
    ID = "C09"
    PROBE_GROUP = "summary"
    RULE = ("Small complete decks (4 unit systems, 8 start dates incl. leap days / year ends) with a random GRUPTREE "
            "(1..7 groups below FIELD, depth <= 4, biased to chains), 2..8 wells on leaf groups (history / "
            "prediction producers, water / gas / oil injectors), WEFAC and GEFAC set and changed at report steps, "
            "OPEN/SHUT/STOP changes, WCONHIST/WCONINJH observed rates changed at report steps, wells created at "
            "later report steps, wells moved to another group (WELSPECS) and groups re-parented (GRUPTREE) during "
            "the run, SUMMARY vectors optionally requested twice, FLIR/FLIT optionally requested through a UDQ "
            "definition, 1..7 report steps "
            "(TSTEP or DATES) with 1..3 evaluations each (+ optional evaluation at t=0 and repeated evaluation at "
            "the same time).  out::Summary::eval is called with generated data::Wells (signed per-phase surface and "
            "reservoir rates, cross-flow signs, wells absent / dynamically SHUT carrying junk rates); every vector of "
            "{W,G,F}{O,W,G,L,V}{P,I}{R,T}, the history families, WCT/GOR/GLR/WGR/OGR (+H), TIME/YEARS/DAY/MONTH/"
            "YEAR/TIMESTEP is compared after every evaluation with a Python accumulator written from the "
            "documented rules.  Non-trivial: group depth >= 3, >= 2 non-unit efficiency factors on one "
            "well-to-FIELD path, >= 1 non-flowing well and >= 1 injector; distinct by (tree shape and well "
            "placement per report step, well kinds, which wells/groups carry non-unit factors).")
    ASSUMPTIONS = [
        "evaluation times handed to eval() are consistent with the schedule (report step r covers (T[r-1], T[r]]), "
        "non-decreasing, whole seconds",
        "a well that is SHUT in the schedule is either absent from data::Wells or reported with dynamicStatus SHUT; "
        "a STOPped well is reported with zero rates",
        "history vectors (xxRH/xxTH/ratios H) are asserted only where all contributing wells are history-matched "
        "(WCONHIST/WCONINJH); what a prediction well echoes is not stated by the property",
        "ratio vectors with a zero denominator are only required to be finite",
        "efficiency factors in (0,1]; groups never mix wells and child groups (the Schedule rejects that); all "
        "groups exist from the first report step (their parents may change later); a well that is created at a "
        "later report step is absent from data::Wells before that step and its vectors may then be absent or zero",
        "vectors not accepted by the SUMMARY parser or absent from the evaluator table (WLIR, GLIT, V-history, "
        "GOITH, G/F WGR/OGR ...) are not requested; FLIR/FLIT (evaluator table only) are requested through a UDQ "
        "definition in about one case in eight",
    ]
    EXAMPLES = {"quick": 80, "thorough": 1200}       # per shard (16 shards); ~0.16 s per case on a free core
    MIN_EVALS = {"quick": 600, "thorough": 8000}
    TIME_CAP = {"quick": 170, "thorough": 800}
    LEVEL_TEXT = ("Generated-model search with a reference accumulator: for each generated deck and simulator-result "
                  "history the expected value of ~700 vectors x up to ~20 evaluations is computed independently "
                  "(efficiency-factor products along the group path, sign split, sums, ratios, calendar) and "
                  "compared in deck units at relative 1e-10.")
    LEVEL_NOTE = ("Sampled, not exhaustive: trees up to 7 groups / depth 4, up to 8 wells.  Trusted: vlib/refunits.py "
                  "(independent unit table) and Python's datetime calendar.  Not covered: vectors outside the listed "
                  "families, region/block/segment/connection vectors, groups created after the first report step, "
                  "restart (SummaryState seeded from a restart file), UDQ/ACTIONX-driven schedule changes.")
    TECHNIQUE = "property-based testing (Hypothesis) against an independent reference model (differential oracle)"

    def strategy(self, tier):
        return case_strategy(tier)

    # ------------------------------------------------------------------------------------------ classification
    def classify(self, case):
        m = Model(case)
        labels = ["units:" + case["units"], "depth:%d" % m.maxdepth, "wells:%d" % m.nw,
                  "steps:%d" % len(case["steps"])]
        evs = m.evals()
        labels.append("evals:%s" % ("<=3" if len(evs) <= 3 else "4-8" if len(evs) <= 8 else ">8"))
        if case["init"] is not None:
            labels.append("eval-at-t0")
        if any(len(s["evals"]) > 1 for s in case["steps"]):
            labels.append("substeps")
        if any(e["again"] for s in case["steps"] for e in s["evals"]):
            labels.append("zero-length-step")
        if case["dup_summary"]:
            labels.append("dup-summary-request")
        if case.get("udq_flit"):
            labels.append("udq-requests-FLIR-FLIT")
        if any(s["regroup"] for s in case["steps"]):
            labels.append("group-reparented")
        if any(s["move"] for s in case["steps"]):
            labels.append("well-moved")
        if any(w["from"] > 0 for w in case["wells"]):
            labels.append("late-well")
        if any(s["dates"] for s in case["steps"]):
            labels.append("dates-kw")
        kinds = set(w["kind"] for w in case["wells"])
        has_inj = any(not is_prod(k) for k in kinds)
        if has_inj:
            labels.append("injector")
        if all(is_hist(k) for k in kinds):
            labels.append("all-history")
        if any(is_hist(k) for k in kinds):
            labels.append("history-wells")
        nonflow = False
        for rs, t, sim in evs:
            si = max(0, rs - 1)
            for w in range(m.nw):
                mode = sim[w][0]
                ss = m.sched[si]["stat"][w]
                if ss == "SHUT":
                    labels.append("sched-shut") if "sched-shut" not in labels else None
                    nonflow = True
                if ss == "STOP" and "sched-stop" not in labels:
                    labels.append("sched-stop")
                if mode == "absent":
                    nonflow = True
                    if "absent-well" not in labels:
                        labels.append("absent-well")
                if mode == "dynshut":
                    nonflow = True
                    if "dyn-shut" not in labels:
                        labels.append("dyn-shut")
                if mode == "ok" and ss == "OPEN":
                    r = sim[w][1]
                    if any(x < 0 for x in r[:3]) and any(x > 0 for x in r[:3]) and "crossflow" not in labels:
                        labels.append("crossflow")
        # non-unit factors on one path
        best = 0
        pattern = set()
        changes = 0
        for w in range(m.nw):
            for si, s in enumerate(m.sched):
                n = (1 if s["wef"][w] != 1.0 else 0) + sum(1 for g in m.path(w, s) if s["gef"][g] != 1.0)
                best = max(best, n)
        for s in m.sched:
            for w in range(m.nw):
                if s["wef"][w] != 1.0:
                    pattern.add("w%d" % w)
            for g in range(m.ng):
                if s["gef"][g] != 1.0:
                    pattern.add("g%d" % g)
        for si in range(1, len(case["steps"])):
            if case["steps"][si]["wefac"] or case["steps"][si]["gefac"]:
                changes += 1
        if changes:
            labels.append("efac-changes-later")
        if any(len(x) > 2 and x[2] == "NO" for stp in case["steps"] for x in stp["gefac"]):
            labels.append("gefac-transfer-NO")
        labels.append("nonunit-on-path:%d" % min(best, 4))
        nontriv = m.maxdepth >= 3 and best >= 2 and nonflow and has_inj
        if nontriv:
            labels.append("nontrivial")
        fp = sha([[s["parents"] for s in m.sched], [s["wgroup"] for s in m.sched],
                  [w["kind"] for w in case["wells"]], sorted(pattern)], 16)
        return nontriv, fp, labels

    def floors(self, tier):
        return {"nontrivial": 0.15, "injector": 0.5, "substeps": 0.3, "crossflow": 0.3, "absent-well": 0.3,
                "dyn-shut": 0.3, "sched-shut": 0.15, "history-wells": 0.5, "efac-changes-later": 0.2,
                "group-reparented": 0.05, "well-moved": 0.08, "late-well": 0.08, "all-history": 0.2,
                "units:METRIC": 0.1, "units:FIELD": 0.1, "units:LAB": 0.1, "units:PVT-M": 0.1, "depth:4": 0.1}

    def sample_view(self, case):
        return {"units": case["units"], "start": case["start"], "parents": case["parents"], "wells": case["wells"],
                "steps": [{k: v for k, v in s.items() if k != "evals"} for s in case["steps"]],
                "n_evals": sum(len(s["evals"]) for s in case["steps"])}

    # ------------------------------------------------------------------------------------------------ oracle
    def check(self, case, ctx):
        m = Model(case)
        evs = m.evals()
        fkeys = F_KEYS + T_KEYS + (["FLIR", "FLIT"] if case.get("udq_flit") else [])
        rep = ctx.P.call("summary_run", deck=m.deck(), wells=m.wnames, groups=m.gnames, wkeys=W_KEYS, gkeys=G_KEYS,
                         fkeys=fkeys, evals=[m.wire(e) for e in evs])
        deferred = None      # a violation with a known_findings key is reported only if nothing else is wrong

        def V(rule, detail, key=None):
            return {"rule": rule, "detail": detail, "key": key}

        # the schedule's report times are the ones the evaluation times were derived from
        secs = [hexf(x) for x in rep["secs"]]
        if secs != [float(x) for x in m.tsecs]:
            return V("schedule report times differ from start + TSTEP/DATES", {"got": secs, "want": m.tsecs})
        ref = Reference(m)
        ncmp = 0
        for i, ev in enumerate(evs):
            want = ref.step(ev)
            got = rep["evals"][i]
            if got["var_mismatch"]:
                return V("SummaryState::get(key) and get_well_var/get_group_var disagree",
                         {"eval": i, "keys": got["var_mismatch"][:5]})
            if hexf(got["elapsed"]) != float(ev[1]):
                return V("SummaryState elapsed time after eval", {"eval": i, "got": hexf(got["elapsed"]), "want": ev[1]})
            for level, names, keys, vals in (("W", m.wnames, W_KEYS, got["w"]), ("G", m.gnames, G_KEYS, got["g"]),
                                             ("F", [""], fkeys, [got["f"]])):
                for ni, name in enumerate(names):
                    for ki, k in enumerate(keys):
                        full = k + ":" + name if name else k
                        g = vals[ni][ki]
                        if not ref.asserted(k, ni, level):
                            continue
                        if g is None and level == "W" and m.sched[max(0, ev[0] - 1)]["wgroup"][ni] is None:
                            continue                        # well not created yet: no value is also "nothing"
                        if g is None:
                            return V("requested vector not present in the SummaryState after eval",
                                     {"eval": i, "vector": full}, "missing:" + k)
                        g = hexf(g)
                        w = want[full]
                        if not math.isfinite(g):
                            return V("vector value not finite", {"eval": i, "vector": full, "got": g}, "nonfinite:" + k)
                        if w is None:
                            continue
                        ncmp += 1
                        # tolerance: all quantities are doubles; an expected value is a same-sign sum of <= 8
                        # products of <= 7 factors, accumulated over <= ~30 evaluations, converted to SI and back
                        # (2 multiplications/divisions each way): worst case ~ 100 roundings = 1e-14 relative, no
                        # cancellation (production and injection parts are summed separately).  1e-10 relative
                        # (+1e-13 absolute for exact zeros) leaves 4 orders of margin and is 8 orders below the
                        # smallest wrong-factor defect (factor 0.9).
                        if abs(g - w) > 1e-10 * abs(w) + 1e-13:
                            v = V("vector differs from its definition",
                                  {"eval": i, "report_step": ev[0], "secs": ev[1], "vector": full, "got": g,
                                   "want": w, "units": case["units"]}, "value:" + k)
                            if k == "FLIT":
                                deferred = deferred or v
                                continue
                            return v
        ctx.label("values-compared", ncmp)
        return deferred
