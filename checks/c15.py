"""C15 - Saturation functions honour the tables, end-point scaling and hysteresis rules.

Generated deck text (SWOF/SGOF or the equivalent SWFN/SGFN/SOF2/SOF3, 1..3 saturation regions, optional ENDSCALE with
per-cell end-point arrays, optional SATOPTS HYSTER + EHYSTR + IMBNUM) -> EclipseState ->
EclMaterialLawManager::initFromState / initParamsForElements -> MaterialLaw::relativePermeabilities /
capillaryPressures / Manager::updateHysteresis per cell.  The oracle knows only the numbers typed into the deck:
a piecewise-linear table model written from the keyword definitions, the end-point definitions of the ENDSCALE
family (connate = first table saturation, critical = last saturation with zero relperm, ...), metamorphic relations
(family I == family II, ENDSCALE with the table's own end-points == no ENDSCALE) and the hysteresis rules of the
property statement (drainage curve until the first reversal, continuity at the reversal point, monotone scanning
curves, Carlson with identical curves == no hysteresis).
"""
import copy
import bisect
import math
import os
from fractions import Fraction

from hypothesis import strategies as st

from vlib.runner import Check, sha
from vlib.probe import hexf

BAR = 1.0e5          # METRIC pressure unit (definition of the bar)
Q = 10000            # saturations / relperms are integers * 1e-4 in the deck (exact decimal text)
PQ = 1000            # capillary pressures are integers * 1e-3 bar
MINGAP = 200         # minimal distance of two table saturations (0.02): bounds table slopes by 50 * column max
DELTA = 1.0e-10      # offset of the one-sided continuity probes

# --------------------------------------------------------------------------- tolerances
# Table nodes are >= 0.02 apart, so |d column / dS| <= 50 * colmax.  The library shifts/mirrors saturations
# (1 - Swco - Sg, 1 - So) in double arithmetic: argument error <= 4 ulp(1) ~ 9e-16 -> value error <= 5e-14 * colmax;
# the interpolation itself adds a few ulp.  1e-12 * colmax leaves a factor > 10.
TOL_TABLE = 1.0e-12
# family II tables carry interpolated relperms written with 17 significant digits and a second mirroring (1 - So):
# still O(1e-14); 1e-10 as in the agreed design.  Same for ENDSCALE identity (two extra affine maps with ratio ~1).
TOL_META = 1.0e-10
# end-point mapping: scaled -> table saturation through (S - S0) * ratio with ratio <= 1/0.02 = 50 and vertical
# factors <= 10/0.1 = 100: error <= 9e-16 * 50 * 50 * 100 ~ 2e-10 * colmax in the worst corner; typical 1e-13.
TOL_EPS = 1.0e-9
# hysteresis continuity: limit extrapolated from three probes at distance 1e-7..3e-7; scanning curves are piecewise
# linear with slopes <= 50 * stretch, rounding of the probes (1e-16 * slope) is amplified 3x: << 1e-9
TOL_CONT = 1.0e-9
# rounding of one interpolation step y0 + (x - x0) * m can leave [min, max] of the column by an ulp
SLACK = 1.0e-14


def dec(k, d):
    """integer k -> exact decimal text of k * 10^-d"""
    s = "%0*d" % (d + 1, abs(k))
    return ("-" if k < 0 else "") + s[:-d] + "." + s[-d:]


def fsat(k):
    return float(dec(k, 4))


def fpc(k):
    return float(dec(k, 3)) * BAR


def interp(xs, ys, x):
    """the table: linear between the rows, constant outside"""
    if x <= xs[0]:
        return ys[0]
    if x >= xs[-1]:
        return ys[-1]
    k = bisect.bisect_right(xs, x) - 1
    t = (x - xs[k]) / (xs[k + 1] - xs[k])
    return ys[k] + (ys[k + 1] - ys[k]) * t


def finterp(xs, ys, x):
    """exact rational interpolation on integer tables"""
    if x <= xs[0]:
        return Fraction(ys[0])
    if x >= xs[-1]:
        return Fraction(ys[-1])
    k = bisect.bisect_right(xs, x) - 1
    return ys[k] + Fraction((ys[k + 1] - ys[k]) * (x - xs[k]), xs[k + 1] - xs[k])


# --------------------------------------------------------------------------- generator
def split(draw, total, n, minstep):
    """n integers >= minstep with sum total (total >= n * minstep)"""
    assert n >= 1 and total >= n * minstep, (total, n, minstep)
    if n == 1:
        return [total]
    w = [draw(st.integers(1, 12)) for _ in range(n)]
    extra = total - n * minstep
    W = sum(w)
    parts = [minstep + extra * wi // W for wi in w]
    parts[draw(st.integers(0, n - 1))] += total - sum(parts)
    return parts


def cum(start, parts):
    out = [start]
    for p in parts:
        out.append(out[-1] + p)
    return out


def grid100(draw, lo, hi):
    """multiple of 100 in [lo, hi]"""
    return 100 * draw(st.integers(-(-lo // 100), hi // 100))


def pc_column(draw, n, rising):
    kind = draw(st.sampled_from(["zero", "pos", "pos", "signed"]))
    if kind == "zero":
        return [0] * n, kind
    hi = draw(st.integers(100, 5000))
    lo = 0 if kind == "pos" else -draw(st.integers(1, 1000))
    if draw(st.booleans()) and kind == "pos":
        lo = draw(st.integers(0, hi - 1))
    steps = [p - 1 for p in split(draw, hi - lo + (n - 1), n - 1, 1)]      # non-negative, flat parts allowed
    col = cum(lo, steps)                                                  # rising lo -> hi
    if not rising:
        col = col[::-1]
    return col, kind


@st.composite
def wo_table(draw, swco, kromax, nmin=3, plateau_ok=True):
    n = draw(st.integers(nmin, 10))
    swu = Q if draw(st.integers(0, 9)) < 6 else grid100(draw, 7000, 9800)
    sw = cum(swco, split(draw, swu - swco, n - 1, MINGAP))
    zw = draw(st.integers(1, n - 1))            # rows 0..zw-1 have krw == 0  -> Swcr = sw[zw-1]
    fo = draw(st.integers(zw, n - 1))           # first row with krow == 0     -> Sowcr = 1 - sw[fo]
    krwmax = draw(st.integers(1000, Q))
    krw = [0] * zw + cum(0, split(draw, krwmax, n - zw, 10))[1:]
    parts = split(draw, kromax, fo, 10)
    krow = [sum(parts[i:]) for i in range(fo)] + [0] * (n - fo)
    plateau = plateau_ok and draw(st.integers(0, 3)) == 0
    if plateau:
        if n - zw >= 2 and draw(st.booleans()):
            j = draw(st.integers(zw, n - 2))
            krw[j] = krw[j + 1]
        elif fo >= 2:
            j = draw(st.integers(1, fo - 1))
            krow[j] = krow[j - 1]
        else:
            plateau = False
    pc, pckind = pc_column(draw, n, rising=False)
    return {"sw": sw, "krw": krw, "krow": krow, "pcow": pc, "plateau": plateau, "pckind": pckind}


@st.composite
def go_table(draw, swco, kromax, sgu=None, krgmax=None, nmin=3, plateau_ok=True):
    n = draw(st.integers(nmin, 10))
    if sgu is None:
        sgu = Q - swco if draw(st.integers(0, 9)) < 6 else grid100(draw, 5000, Q - swco)
    sg = cum(0, split(draw, sgu, n - 1, MINGAP))
    zg = draw(st.integers(1, n - 1))            # Sgcr = sg[zg-1]
    fg = draw(st.integers(zg, n - 1))           # Sogcr = 1 - Swco - sg[fg]
    if krgmax is None:
        krgmax = draw(st.integers(1000, Q))
    krg = [0] * zg + cum(0, split(draw, krgmax, n - zg, 10))[1:]
    parts = split(draw, kromax, fg, 10)
    krog = [sum(parts[i:]) for i in range(fg)] + [0] * (n - fg)
    plateau = plateau_ok and draw(st.integers(0, 3)) == 0
    if plateau:
        if n - zg >= 2 and draw(st.booleans()):
            j = draw(st.integers(zg, n - 2))
            krg[j] = krg[j + 1]
        elif fg >= 2:
            j = draw(st.integers(1, fg - 1))
            krog[j] = krog[j - 1]
        else:
            plateau = False
    pc, pckind = pc_column(draw, n, rising=True)
    return {"sg": sg, "krg": krg, "krog": krog, "pcog": pc, "plateau": plateau, "pckind": pckind}


def ep_of(reg, phases):
    """table end-points (integers * 1e-4 / 1e-3 bar) by the keyword definitions"""
    e = {}
    swco = 0
    if "W" in phases:
        sw, krw, krow = reg["sw"], reg["krw"], reg["krow"]
        swco = sw[0]
        zw = max(i for i in range(len(sw)) if krw[i] == 0)          # last row with krw == 0
        fo = min(i for i in range(len(sw)) if krow[i] == 0)         # first row with krow == 0
        e.update(SWL=sw[0], SWCR=sw[zw], SWU=sw[-1], SOWCR=Q - sw[fo], KRW=krw[-1], KRWR=krw[fo],
                 KRO=krow[0], KRORW=krow[zw], PCW=reg["pcow"][0])
    if "G" in phases:
        sg, krg, krog = reg["sg"], reg["krg"], reg["krog"]
        zg = max(i for i in range(len(sg)) if krg[i] == 0)
        fg = min(i for i in range(len(sg)) if krog[i] == 0)
        e.update(SGL=sg[0], SGCR=sg[zg], SGU=sg[-1], SOGCR=Q - swco - sg[fg], KRG=krg[-1], KRGR=krg[fg],
                 KRO=krog[0], KRORG=krog[zg], PCG=reg["pcog"][-1])
    return e


SAT_KW = ["SWL", "SWCR", "SWU", "SOWCR", "SGCR", "SGU", "SOGCR"]
KR_KW = ["KRW", "KRWR", "KRO", "KRORW", "KRORG", "KRG", "KRGR"]
PC_KW = ["PCW", "PCG"]
KW_PHASE = {"SWL": "W", "SWCR": "W", "SWU": "W", "SOWCR": "W", "KRW": "W", "KRWR": "W", "KRORW": "W", "PCW": "W",
            "SGCR": "G", "SGU": "G", "SOGCR": "G", "KRG": "G", "KRGR": "G", "KRORG": "G", "PCG": "G", "KRO": "O"}


@st.composite
def regions(draw, phases, nreg, hyst=False):
    """nreg region tables.  With hysteresis all regions share connate water, maximum saturations and maximum relperms
    (the curves of one rock meet at their ends), mostly have no plateaus, and are ordered so that a higher region number
    has the larger critical non-wetting saturation (imbibition region >= drainage region)."""
    regs = []
    swco = grid100(draw, 0, 3500) if "W" in phases else 0
    kromax = draw(st.integers(3000, Q))
    sgu = krgmax = None
    if hyst and "G" in phases:
        sgu = Q - swco if draw(st.integers(0, 9)) < 6 else grid100(draw, 5000, Q - swco)
        krgmax = draw(st.integers(1000, Q))
    plateau_ok = (not hyst) or draw(st.integers(0, 3)) == 0
    for r in range(nreg):
        if r > 0 and not hyst and draw(st.integers(0, 2)) == 0:
            regs.append(dict(regs[draw(st.integers(0, r - 1))], copied=True))
            continue
        if r > 0 and not hyst:
            swco = grid100(draw, 0, 3500) if "W" in phases else 0
            kromax = draw(st.integers(3000, Q))
        reg = {"copied": False}
        nmin = 5 if draw(st.booleans()) else 3
        if "W" in phases:
            t = draw(wo_table(swco, kromax, nmin, plateau_ok))
            reg.update(sw=t["sw"], krw=t["krw"], krow=t["krow"], pcow=t["pcow"], plateau_w=t["plateau"],
                       pckind_w=t["pckind"])
        if "G" in phases:
            t = draw(go_table(swco, kromax, sgu, krgmax, nmin, plateau_ok))
            reg.update(sg=t["sg"], krg=t["krg"], krog=t["krog"], pcog=t["pcog"], plateau_g=t["plateau"],
                       pckind_g=t["pckind"])
        regs.append(reg)
    if hyst and nreg > 1:
        wkeys = ("sw", "krw", "krow", "pcow", "plateau_w", "pckind_w")
        gkeys = ("sg", "krg", "krog", "pcog", "plateau_g", "pckind_g")
        wo = go = None
        if "W" in phases:
            wo = sorted(({k: r[k] for k in wkeys} for r in regs), key=lambda t: (ep_of(t, "OW")["SOWCR"], t["sw"], t["krow"]))
        if "G" in phases:
            go = sorted(({k: r[k] for k in gkeys} for r in regs), key=lambda t: (ep_of(t, "GO")["SGCR"], t["sg"], t["krg"]))
        regs = []
        for i in range(nreg):
            reg = {"copied": False}
            if wo:
                reg.update(wo[i])
            if go:
                reg.update(go[i])
            regs.append(reg)
    return regs


def draw_between(draw, lo, hi):
    return draw(st.integers(lo, hi)) if hi > lo else lo


def ordered_draw(draw, tab, isg, base, glob_lo, glob_hi, degenerate_pairs):
    """final values of the ordered quantities tab[0] <= tab[1] <= ... where the entries flagged in isg are drawn anew.
    base[k] is the minimal distance between k and k+1; a pair in degenerate_pairs gets 100 more as soon as one of the
    two is drawn (two end-points that coincide in the table may stay coincident, a scaled pair must not collapse)."""
    n = len(tab)
    marg = []
    for k in range(n - 1):
        m = base[k]
        if k in degenerate_pairs and (isg[k] or isg[k + 1]):
            m += 100
        marg.append(m)
    fin = []
    for i in range(n):
        if not isg[i]:
            fin.append(tab[i])
            continue
        lo = glob_lo[i] if i == 0 else max(glob_lo[i], fin[i - 1] + marg[i - 1])
        hi = glob_hi[i]
        for j in range(i + 1, n):
            if not isg[j]:
                hi = min(hi, tab[j] - sum(marg[i:j]))
                break                       # further fixed values are ordered behind this one by the table itself
            else:
                hi = min(hi, glob_hi[j] - sum(marg[i:j]))
        hi = max(hi, lo)
        fin.append(draw_between(draw, lo, hi))
    return fin


@st.composite
def scaled_endpoints(draw, own, given, phases, threept):
    """effective end-points of one cell: keywords in `given` are drawn consistently with the fixed (table) values of
    the others; ordering SWL <= SWCR < 1-SOWCR <= SWU and 0 <= SGCR < 1-SOGCR-SWL <= SGU <= 1-SWL"""
    e = dict(own)
    if "W" in phases:
        tab = [own["SWL"], own["SWCR"], Q - own["SOWCR"], own["SWU"]]
        isg = [("SWL" in given), ("SWCR" in given), ("SOWCR" in given), ("SWU" in given)]
        fin = ordered_draw(draw, tab, isg, [0, MINGAP, 0], [0, 0, 0, 6000],
                           [4000 if "G" in phases else 4500, 6000, Q, Q], {0, 2})
        e["SWL"], e["SWCR"], e["SOWCR"], e["SWU"] = fin[0], fin[1], Q - fin[2], fin[3]
        # the two upper end-points are independent per-cell arrays: SWU below 1-SOWCR (oil still mobile at the largest
        # water saturation of the cell) is a deck the library accepts and handles explicitly in the three-point
        # mapping; krw must then reach KRW at SWU and stay there.  Only without a vertical three-point value for krw
        # (KRWR at 1-SOWCR has no meaning when that saturation lies beyond SWU).
        if threept and "SWU" in given and "KRWR" not in given and fin[2] - fin[1] >= 600 \
                and draw(st.integers(0, 2)) == 0:
            e["SWU"] = draw(st.integers(fin[1] + 300, fin[2] - 100))
    swl = e.get("SWL", 0)
    if "G" in phases:
        cap = Q - swl
        tab = [own["SGCR"], Q - own["SOGCR"] - swl, own["SGU"]]          # Sgcr < Sgr <= Sgu (<= cap)
        isg = [("SGCR" in given), ("SOGCR" in given), ("SGU" in given)]
        fin = ordered_draw(draw, tab, isg, [MINGAP, 0], [100, 0, min(cap, 5000)], [3000, cap, cap], {1})
        e["SGCR"], e["SOGCR"], e["SGU"] = fin[0], Q - swl - fin[1], fin[2]
    # vertical
    for big in ("KRW", "KRO", "KRG"):
        if big in own and big in given:
            e[big] = draw(st.integers(1000, Q))
    coincide = {"KRWR": ("W" in phases and Q - e["SOWCR"] == e["SWU"]),
                "KRORW": ("W" in phases and e["SWL"] == e["SWCR"]),
                "KRGR": ("G" in phases and Q - e["SOGCR"] - swl == e["SGU"]),
                "KRORG": ("G" in phases and e["SGCR"] == 0)}
    for small, big in (("KRWR", "KRW"), ("KRORW", "KRO"), ("KRORG", "KRO"), ("KRGR", "KRG")):
        if small in own and small in given:
            # where the two saturations coincide there is one value only
            e[small] = e[big] if coincide[small] else draw(st.integers(100, e[big]))
    for p in PC_KW:
        if p in own and p in given:
            # (exactly 0 = capillary pressure switched off in this cell, the usual use of PCW / PCG)
            e[p] = 0 if draw(st.integers(0, 7)) == 0 else draw(st.integers(100, 10000))
    return e


HE_FLAGS = ["SWL", "WCR", "SWU", "GCR", "SGU", "KRW", "KRO", "KRG", "KRNR"]
HE_KW = {"SWL": [("SWL", "W")], "WCR": [("SWCR", "W"), ("SOWCR", "W")], "SWU": [("SWU", "W")],
         "GCR": [("SGCR", "G"), ("SOGCR", "G")], "SGU": [("SGU", "G")], "KRW": [("KRW", "W")], "KRO": [("KRO", "O")],
         "KRG": [("KRG", "G")], "KRNR": [("KRORW", "W"), ("KRGR", "G")]}


def he_keywords(flags, phases):
    """drainage keywords written for a set of flags (the imbibition keyword is 'I' + name)"""
    return [k for f in HE_FLAGS if f in flags for (k, p) in HE_KW[f] if p in phases]


@st.composite
def hyst_endpoints(draw, own_d, own_i, flags, phases, ident):
    """scaled end-points of one cell for the drainage (SATNUM) and the imbibition (IMBNUM) curve.  As for the
    tables, the two curves of a cell share connate water, the maximum saturations and the maximum relperms, and the
    critical non-wetting saturation of the imbibition curve is not smaller than that of the drainage curve.
    Drawn end-points keep 0.01 between the members of a pair that three-point scaling maps to different table
    saturations (SWL/SWCR, 1-SOWCR/SWU, SGL/SGCR, 1-SOGCR-SWL/SGU): collapsing a table interval to a point makes the
    scaled curve itself discontinuous there."""
    d, i = dict(own_d), dict(own_i)
    gap = MINGAP
    sep = 100
    a = draw(st.integers(0, 3500)) if "SWL" in flags else own_d.get("SWL", 0)
    if "W" in phases:
        d["SWL"] = i["SWL"] = a
        if "SWU" in flags:
            lo = 7000
            if "WCR" not in flags:
                lo = max(lo, min(Q, Q - own_d["SOWCR"] + sep), min(Q, Q - own_i["SOWCR"] + sep))
            d["SWU"] = i["SWU"] = draw(st.integers(lo, Q))
        if "WCR" in flags:
            c_d = draw(st.integers(a + sep + gap, d["SWU"] - sep))
            b_d = draw(st.integers(a + sep, c_d - gap))
            c_i = draw(st.integers(a + sep + gap, min(c_d, i["SWU"] - sep)))
            b_i = draw(st.integers(a + sep, c_i - gap))
            d["SWCR"], d["SOWCR"], i["SWCR"], i["SOWCR"] = b_d, Q - c_d, b_i, Q - c_i
    if "G" in phases:
        cap = Q - a
        r0_d, r0_i = Q - own_d["SOGCR"] - own_d.get("SWL", 0), Q - own_i["SOGCR"] - own_i.get("SWL", 0)
        if "SGU" in flags:
            lo = min(cap, 5000)
            if "GCR" not in flags:
                lo = max(lo, min(cap, r0_d + sep), min(cap, r0_i + sep))
            d["SGU"] = i["SGU"] = draw(st.integers(lo, cap))
        u = d["SGU"]
        if "GCR" in flags:
            r_d = draw(st.integers(sep + gap, u - sep))
            g_d = draw(st.integers(sep, r_d - gap))
            r_i = draw(st.integers(g_d + gap, u - sep))
            g_i = draw(st.integers(g_d, r_i - gap))
            d["SGCR"], d["SOGCR"], i["SGCR"], i["SOGCR"] = g_d, Q - a - r_d, g_i, Q - a - r_i
    for k in ("KRW", "KRO", "KRG"):
        if k in flags and k in d:
            d[k] = i[k] = draw(st.integers(1000, Q))
    if "KRNR" in flags:
        if "W" in phases:
            for e in (d, i):
                e["KRORW"] = e["KRO"] if e["SWCR"] == e["SWL"] else draw(st.integers(100, e["KRO"]))
        if "G" in phases:
            for e in (d, i):
                e["KRGR"] = e["KRG"] if Q - e["SOGCR"] - a == e["SGU"] else draw(st.integers(100, e["KRG"]))
    if ident:
        i = dict(d)
    return d, i


@st.composite
def case_strategy(draw, tier):
    mode = draw(st.sampled_from(["unscaled", "unscaled", "identity", "eps", "eps", "eps", "hyst", "hyst", "hysteps",
                                 "hysteps", "hysteps"]))
    phases = draw(st.sampled_from(["OW", "GO", "OWG", "OWG"]))
    hyst = mode in ("hyst", "hysteps")
    nreg = draw(st.integers(1, 3 if hyst else 4))
    if hyst and draw(st.integers(0, 3)) > 0:
        nreg = max(nreg, 2)
    regs = draw(regions(phases, nreg, hyst))
    # a table may be defaulted (an empty record): it is then the table of the region before it
    dflt = []
    if not hyst:
        for r in range(1, nreg):
            if draw(st.integers(0, 2)) == 0:
                regs[r] = copy.deepcopy(regs[r - 1])
                dflt.append(r)
    ncell = draw(st.integers(1, 4 if not hyst else 3))
    case = {"mode": mode, "phases": phases, "regs": regs, "kro3": "default", "dflt": dflt}
    if phases == "OWG":
        case["kro3"] = draw(st.sampled_from(["default", "default", "stone2", "stone1"]))
    cells = []
    for c in range(ncell):
        # hysteresis: prefer a drainage region that leaves room for a different imbibition region
        cells.append({"satnum": draw(st.integers(1, nreg - 1)) if hyst and nreg > 1 and draw(st.integers(0, 3)) > 0
                      else draw(st.integers(1, nreg))})
    case["cells"] = cells
    case["threept"] = False
    case["family"] = draw(st.sampled_from([1, 1, 2] + ([3] if phases == "OWG" else []))) if mode in ("identity", "eps") else 1
    if mode == "identity":
        case["threept"] = draw(st.booleans())
        # which keywords are written explicitly with the table's own values (possibly none: bare ENDSCALE)
        allkw = [k for k in SAT_KW + KR_KW + PC_KW if KW_PHASE[k] in phases or (k == "KRO")]
        allkw = [k for k in allkw if not (k in ("KRORW",) and "W" not in phases) and not (k == "KRORG" and "G" not in phases)]
        how = draw(st.sampled_from(["bare", "all", "some"]))
        given = [] if how == "bare" else allkw if how == "all" else [k for k in allkw if draw(st.booleans())]
        case["given"] = given
    if mode == "eps":
        case["threept"] = draw(st.booleans())
        allkw = [k for k in SAT_KW + KR_KW + PC_KW if KW_PHASE[k] in phases or (k == "KRO")]
        allkw = [k for k in allkw if not (k == "KRORW" and "W" not in phases) and not (k == "KRORG" and "G" not in phases)]
        given = [k for k in allkw if draw(st.integers(0, 2)) > 0]
        if not case["threept"]:
            # vertical three-point keywords are only generated together with three-point saturation scaling
            given = [k for k in given if k not in ("KRWR", "KRORW", "KRGR", "KRORG")]
        if "SWL" in given and "G" in phases:
            # connate water moves the gas-oil end-points (1 - SWL - ...): a consistent deck restates them
            for k in ("SOGCR", "SGU"):
                if k not in given:
                    given.append(k)
        eps_own = [ep_of(r, phases) for r in regs]
        if any(e.get("PCW", 1) <= 0 for e in eps_own):
            given = [k for k in given if k != "PCW"]
        if any(e.get("PCG", 1) <= 0 for e in eps_own):
            given = [k for k in given if k != "PCG"]
        if not given:
            given = ["SWCR"] if "W" in phases else ["SGCR"]
        case["given"] = given
        for cell in cells:
            cell["ep"] = draw(scaled_endpoints(eps_own[cell["satnum"] - 1], given, phases, case["threept"]))
    if hyst:
        case["model"] = draw(st.sampled_from([0, 0, 1, 2, 2, 3]))
        corner_opts = {"OW": ["w"], "GO": ["g"], "OWG": ["w", "g"]}[phases]
        for cell in cells:
            if cell["satnum"] < nreg and draw(st.integers(0, 3)) > 0:
                cell["imbnum"] = draw(st.integers(cell["satnum"] + 1, nreg))
            else:
                cell["imbnum"] = cell["satnum"]
            cell["corner"] = draw(st.sampled_from(corner_opts))
            n = draw(st.integers(3, 10 if tier == "quick" else 14))
            cell["hist"] = [draw(st.integers(0, 1000)) for _ in range(n)]
            if phases == "OWG" and cell["corner"] == "g":
                # water above connate in the state handed to updateHysteresis (thousandths of the room left by the gas):
                # the gas-oil hysteresis follows Sg alone, whatever the water saturation of the cell
                cell["hist_w"] = [draw(st.sampled_from([0, 0, 0, 250, 600, 1000])) for _ in range(n)]
    if mode == "hysteps":
        case["threept"] = draw(st.booleans())
        flags = [f for f in HE_FLAGS if draw(st.integers(0, 2)) > 0]
        if not case["threept"]:
            flags = [f for f in flags if f != "KRNR"]
        if "SWL" in flags:
            flags += [f for f in ("WCR", "GCR", "SGU") if f not in flags]
        flags = [f for f in flags if he_keywords([f], phases)]
        if not flags:
            flags = ["GCR"] if "G" in phases else ["WCR"]
        case["flags"] = flags
        for cell in cells:
            cell["ident"] = cell["imbnum"] == cell["satnum"] and draw(st.booleans())
            own_d = ep_of(regs[cell["satnum"] - 1], phases)
            own_i = ep_of(regs[cell["imbnum"] - 1], phases)
            cell["ep"], cell["iep"] = draw(hyst_endpoints(own_d, own_i, flags, phases, cell["ident"]))
    return case


# --------------------------------------------------------------------------- deck text
def table_text(rows):
    return "\n".join(" " + " ".join(r) for r in rows) + " /\n"


def deck_text(case, family=1, endscale=False, arrays=None, hyst=False):
    ph = case["phases"]
    regs = case["regs"]
    dflt = case.get("dflt", [])
    n = len(case["cells"])
    out = ["RUNSPEC", "DIMENS", " %d 1 1 /" % n, "TABDIMS", " %d 1 60 /" % len(regs)]
    if "O" in ph:
        out.append("OIL")
    if "W" in ph:
        out.append("WATER")
    if "G" in ph:
        out.append("GAS")
    out.append("METRIC")
    if endscale:
        out += ["ENDSCALE", " 'NODIR' 'REVERS' 1 20 /"]
    if hyst:
        out += ["SATOPTS", " HYSTER /"]
    out += ["GRID", "DX", " %d*100 /" % n, "DY", " %d*100 /" % n, "DZ", " %d*10 /" % n, "TOPS", " %d*2000 /" % n,
            "PORO", " %d*0.2 /" % n, "PERMX", " %d*100 /" % n, "PROPS"]
    if case.get("kro3") == "stone1":
        out.append("STONE1")
    elif case.get("kro3") == "stone2":
        out.append("STONE2")
    if family == 2:
        # the SOF2/SOF3 rows added at the break-points of the other table carry interpolated relperms that can be
        # smaller than the default TOLCRIT (1e-6) next to a critical saturation; keep them mobile as in family I
        out += ["TOLCRIT", " 1.0E-12 /"]
    if family in (1, 3):
        if "W" in ph:
            out.append("SWOF")
            for ri, r in enumerate(regs):
                out.append("/\n" if ri in dflt else table_text([[dec(r["sw"][i], 4), dec(r["krw"][i], 4), dec(r["krow"][i], 4),
                                        dec(r["pcow"][i], 3)] for i in range(len(r["sw"]))]))
        if "G" in ph and family == 3:
            # the same gas-oil curves against the liquid saturation Sl = 1 - Sg (ascending)
            out.append("SLGOF")
            for ri, r in enumerate(regs):
                out.append("/\n" if ri in dflt else table_text([[dec(Q - r["sg"][i], 4), dec(r["krg"][i], 4), dec(r["krog"][i], 4),
                                        dec(r["pcog"][i], 3)] for i in reversed(range(len(r["sg"])))]))
        elif "G" in ph:
            out.append("SGOF")
            for ri, r in enumerate(regs):
                out.append("/\n" if ri in dflt else table_text([[dec(r["sg"][i], 4), dec(r["krg"][i], 4), dec(r["krog"][i], 4),
                                        dec(r["pcog"][i], 3)] for i in range(len(r["sg"]))]))
    else:
        if "W" in ph:
            out.append("SWFN")
            for ri, r in enumerate(regs):
                out.append("/\n" if ri in dflt else table_text([[dec(r["sw"][i], 4), dec(r["krw"][i], 4), dec(r["pcow"][i], 3)]
                                       for i in range(len(r["sw"]))]))
        if "G" in ph:
            out.append("SGFN")
            for ri, r in enumerate(regs):
                out.append("/\n" if ri in dflt else table_text([[dec(r["sg"][i], 4), dec(r["krg"][i], 4), dec(r["pcog"][i], 3)]
                                       for i in range(len(r["sg"]))]))
        out.append("SOF3" if ph == "OWG" else "SOF2")
        for ri, r in enumerate(regs):
            if ri in dflt:
                out.append("/\n")
                continue
            swco = r["sw"][0] if "W" in ph else 0
            nodes = set()
            if "W" in ph:
                nodes.update(Q - s for s in r["sw"])
            if "G" in ph:
                nodes.update(Q - swco - s for s in r["sg"])
            rows = []
            for so in sorted(nodes):
                row = [dec(so, 4)]
                if "W" in ph:
                    row.append(repr(float(finterp(r["sw"], r["krow"], Q - so) / Q)))
                if "G" in ph:
                    row.append(repr(float(finterp(r["sg"], r["krog"], Q - swco - so) / Q)))
                rows.append(row)
            out.append(table_text(rows))
    if case.get("threept") and endscale:
        out += ["SCALECRS", " YES /"]
    if hyst:
        out += ["EHYSTR", " 0.1 %d 1.0 0.1 KR /" % case["model"]]
    for kw in sorted(arrays or {}):
        out += [kw, " " + " ".join(arrays[kw]) + " /"]
    out += ["REGIONS", "SATNUM", " " + " ".join(str(c["satnum"]) for c in case["cells"]) + " /"]
    if hyst:
        out += ["IMBNUM", " " + " ".join(str(c["imbnum"]) for c in case["cells"]) + " /"]
    return "\n".join(out) + "\n"


# --------------------------------------------------------------------------- table model
class RegModel:
    """the unscaled curves of one region as functions of Sw (oil-water) and Sg (gas-oil)"""

    def __init__(self, reg, phases):
        self.W = "W" in phases
        self.G = "G" in phases
        if self.W:
            self.sw = [fsat(k) for k in reg["sw"]]
            self.krw_ = [fsat(k) for k in reg["krw"]]
            self.krow_ = [fsat(k) for k in reg["krow"]]
            self.pcow_ = [fpc(k) for k in reg["pcow"]]
            self.swco = self.sw[0]
        else:
            self.swco = 0.0
        if self.G:
            self.sg = [fsat(k) for k in reg["sg"]]
            self.krg_ = [fsat(k) for k in reg["krg"]]
            self.krog_ = [fsat(k) for k in reg["krog"]]
            self.pcog_ = [fpc(k) for k in reg["pcog"]]

    def krw(self, sw): return interp(self.sw, self.krw_, sw)
    def krow(self, sw): return interp(self.sw, self.krow_, sw)
    def pcow(self, sw): return interp(self.sw, self.pcow_, sw)
    def krg(self, sg): return interp(self.sg, self.krg_, sg)
    def krog(self, sg): return interp(self.sg, self.krog_, sg)
    def pcog(self, sg): return interp(self.sg, self.pcog_, sg)

    def scale_pcow(self): return max(max(abs(v) for v in self.pcow_), 1.0)
    def scale_pcog(self): return max(max(abs(v) for v in self.pcog_), 1.0)


def point(phases, corner, s, swl):
    """fluid-state triple [Sw, So, Sg] of corner saturation s (Sw in the water corner, Sg in the gas corner)"""
    if corner == "w":
        return [s, 1.0 - s, 0.0]
    if phases == "GO":
        return [0.0, 1.0 - s, s]
    return [swl, 1.0 - swl - s, s]


def obs(v):
    """probe sextuple -> dict (pcow = po - pw, pcgo = pg - po)"""
    x = [hexf(t) for t in v]
    return {"krw": x[0], "kro": x[1], "krg": x[2], "pcow": x[4] - x[3], "pcgo": x[5] - x[4]}


def expected(m, phases, corner, s, swl):
    """unscaled table values in a two-phase corner"""
    e = {}
    if corner == "w":
        e["krw"] = m.krw(s)
        e["kro"] = m.krow(max(s, swl)) if phases == "OWG" else m.krow(s)
        e["pcow"] = m.pcow(s)
        if phases == "OWG":
            e["krg"] = m.krg(0.0)
            e["pcgo"] = m.pcog(0.0)
    else:
        e["krg"] = m.krg(s)
        e["kro"] = m.krog(s)
        e["pcgo"] = m.pcog(s)
        if phases == "OWG":
            e["krw"] = m.krw(swl)
            e["pcow"] = m.pcow(swl)
    return e


def scales(m, phases):
    sc = {"krw": 1.0, "kro": 1.0, "krg": 1.0}
    if "W" in phases:
        sc["pcow"] = m.scale_pcow()
    if "G" in phases:
        sc["pcgo"] = m.scale_pcog()
    return sc


def corners(phases):
    return {"OW": ["w"], "GO": ["g"], "OWG": ["w", "g"]}[phases]


def eval_sats(reg, phases, corner, swl_int, extra=()):
    """saturations of one corner: the table rows, a 201-point grid, extra points; inside the admissible range"""
    hi = 1.0 if corner == "w" or phases == "GO" else 1.0 - fsat(swl_int)
    pts = set(k / 200.0 for k in range(201))
    nodes = reg["sw"] if corner == "w" else reg["sg"]
    pts.update(fsat(k) for k in nodes)
    pts.update(extra)
    out = sorted(p for p in pts if 0.0 <= p <= hi)
    if phases == "OWG":
        # the three-phase oil model switches to a regularised average of krow and krog within 1e-5 of the
        # connate corner (three-phase interior, not part of the property): keep 2e-5 away, the corner itself is kept
        lo = fsat(swl_int) if corner == "w" else 0.0
        out = [p for p in out if not (lo < p < lo + 2.0e-5)]
    return out


# --------------------------------------------------------------------------- the check
class C15(Check):
    ID = "C15"
    PROBE_GROUP = "satfunc"
    RULE = ("Decks with 1..3 saturation regions of random monotone SWOF/SGOF tables (3..10 rows, saturations >= 0.02 "
            "apart, random critical/connate rows, optional plateaus, zero/positive/sign-changing pc) for oil-water, "
            "gas-oil and three-phase runs (default/Stone1/Stone2 oil model, evaluated in the two-phase corners "
            "Sg=0 and Sw=SWL), 1..4 cells with random SATNUM; four modes: 'unscaled' (family I and the equivalent "
            "SWFN/SGFN/SOF2/SOF3 deck, all table rows + 201-point grid), 'identity' (ENDSCALE bare or with the "
            "table's own end-points written explicitly, two-/three-point), 'eps' (random subset of SWL SWCR SWU "
            "SOWCR SGCR SGU SOGCR KRW KRWR KRO KRORW KRORG KRG KRGR PCW PCG with consistent random per-cell values, "
            "two-/three-point), 'hyst' (EHYSTR model 0..3, IMBNUM, random saturation histories of 3..14 steps "
            "driven through updateHysteresis), 'hysteps' (the same histories on ENDSCALE decks whose cells carry "
            "per-cell drainage and imbibition end-point arrays SWL/ISWL SWCR/ISWCR SOWCR/ISOWCR SWU/ISWU SGCR/ISGCR "
            "SOGCR/ISOGCR SGU/ISGU KRW/IKRW KRO/IKRO KRG/IKRG KRORW/IKRORW KRGR/IKRGR, two-/three-point; the "
            "drainage curve is taken from the same deck without hysteresis).  Non-trivial: a table with >= 5 rows and critical != connate "
            "end-points (unscaled/identity), a scaled end-point > 5 % away from the table's (eps), a history with "
            ">= 2 reversals (hyst); distinct by (mode, phases, oil model, row-count classes, keyword set, "
            "three-point, hysteresis model, imbibition==drainage, reversal class)."
            " Extended during the build phase: up to 4 regions with defaulted table records (non-hysteresis modes), SLGOF as a third input form (three-phase), cells with SWU below 1-SOWCR under three-point scaling, PCW / PCG exactly 0, hysteresis x end-point scaling, gas histories with mobile water.")
    ASSUMPTIONS = [
        "relperm values in the tables are 0 or >= 0.001 (TOLCRIT = 1e-6 is never in play)",
        "SGL is not scaled (first SGOF saturation is 0 as the keyword requires); directional/irreversible scaling, "
        "ENKRVD/ENPTVD depth tables, SWATINIT, JFUNC, gas-water runs, SLGOF and LET tables are not generated",
        "three-phase runs are observed only in the corners Sg=0 and Sw=SWL where the oil model reduces to a table "
        "curve; saturations within 2e-5 of the connate corner (regularised average inside the oil model) are skipped",
        "vertical three-point keywords (KRWR, KRORW, KRGR, KRORG) are generated only together with SCALECRS YES: with "
        "two-point saturation scaling the value at the displacing critical saturation is not a table end-point",
        "hysteresis: kr hysteresis only (EHYSTR item 5 = KR), models 0..3; drainage and imbibition curves share "
        "connate, maximum saturation and maximum relperm, critical non-wetting saturation of the imbibition curve "
        ">= drainage; tables with a plateau in the mobile range of the non-wetting curve are generated (1 in 4) but a "
        "failing Carlson identity on them carries the known-finding key (horizontal shift not unique); saturation histories stay inside the table's saturation range [0, SGU] resp. "
        "[SWL, 1] for the same reason; WAG hysteresis not generated",
        "hysteresis with end-point scaling (mode hysteps): the drainage and the imbibition curve of a cell share SWL, "
        "SWU, SGU and the maxima KRW/KRO/KRG (imbibition arrays restate the drainage values), ISOWCR >= SOWCR and "
        "ISGCR >= SGCR; drawn end-points keep 0.01 between SWL/SWCR, 1-SOWCR/SWU, SGL/SGCR, 1-SOGCR-SWL/SGU (a table "
        "interval collapsed to a point makes the scaled curve itself discontinuous); directional and PC* arrays are "
        "not generated; 'identical curves' means IMBNUM == SATNUM and every imbibition array equal to its drainage "
        "array",
        "continuity at a reversal point is checked through the one-sided limit extrapolated from three probes "
        "1e-7 apart and only where those probes lie on one linear piece",
    ]
    EXAMPLES = {"quick": 200, "thorough": 2000}
    MIN_EVALS = {"quick": 600, "thorough": 8000}
    TIME_CAP = {"quick": 150, "thorough": 1000}
    LEVEL_TEXT = ("Generated-deck search with an independent table model and metamorphic relations: every table row "
                  "and a 201-point saturation grid per curve are compared with a piecewise-linear model of the typed "
                  "numbers; family II decks and ENDSCALE decks restating the table's end-points must reproduce the "
                  "family I / unscaled results; random consistent end-point arrays must map each scaled end-point to "
                  "the table end-point value (or the given KR*/PC* value); random saturation histories must follow "
                  "the drainage curve up to the historical maximum, leave it continuously and monotonically, and "
                  "change nothing under Carlson with identical curves.")
    LEVEL_NOTE = ("Sampled, not exhaustive. Trusted: the end-point definitions typed into ep_of() (connate/critical/"
                  "maximum by table row). Not asserted: the shape of scaled curves between end-points, three-phase "
                  "interior, Killough curvature, pc hysteresis, wetting-phase hysteresis (model 4).")
    TECHNIQUE = "property-based testing (Hypothesis): table reference model + metamorphic relations + stateful histories"

    def strategy(self, tier):
        return case_strategy(tier)

    # ------------------------------------------------------------ classification
    def reversals(self, hist):
        """number of times the running maximum is left (a drainage -> imbibition reversal)"""
        n = 0
        mx = -1
        on_max = True
        for h in hist:
            if h >= mx:
                mx = h
                on_max = True
            elif on_max:
                n += 1
                on_max = False
        return n

    def classify(self, case):
        ph = case["phases"]
        labels = ["mode:" + case["mode"], "phases:" + ph, "nreg:%d" % len(case["regs"]), "cells:%d" % len(case["cells"])]
        if ph == "OWG":
            labels.append("kro3:" + case["kro3"])
        if case.get("dflt"):
            labels.append("defaulted-table-record")
            if any(r >= 2 for r in case["dflt"]):
                labels.append("defaulted-table-record:third-or-later-region")
        rows = []
        distinct = False
        for r in case["regs"]:
            e = ep_of(r, ph)
            for key in ("sw", "sg"):
                if key in r:
                    rows.append(len(r[key]))
            if ("W" in ph and e["SWCR"] > e["SWL"]) or ("G" in ph and e["SGCR"] > 0):
                distinct = True
            for k in ("plateau_w", "plateau_g"):
                if r.get(k):
                    labels.append("plateau")
            for k in ("pckind_w", "pckind_g"):
                if k in r:
                    labels.append("pc:" + r[k])
            if r.get("copied"):
                labels.append("region-copied")
        labels.append("family:%s" % ("I+II+SLGOF" if case["mode"] == "unscaled" else "II" if case.get("family") == 2 else "I(SLGOF)" if case.get("family") == 3 else "I"))
        labels = sorted(set(labels))
        big = max(rows) >= 5
        if big:
            labels.append("rows>=5")
        nontriv = False
        sig = [case["mode"], ph, case.get("kro3"), sorted(set(min(r, 6) for r in rows)), len(case["regs"]),
               case.get("family", 1)]
        mode = case["mode"]
        if mode in ("unscaled", "identity"):
            nontriv = big and distinct
            if mode == "identity":
                labels.append("threept" if case["threept"] else "twopt")
                labels.append("identity:" + ("bare" if not case["given"] else "explicit"))
                sig += [case["threept"], sorted(case["given"])]
        elif mode == "eps":
            labels.append("threept" if case["threept"] else "twopt")
            for k in case["given"]:
                labels.append("kw:" + k)
            far = False
            for c in case["cells"]:
                own = ep_of(case["regs"][c["satnum"] - 1], ph)
                for k in case["given"]:
                    if k in own and abs(c["ep"][k] - own[k]) > 0.05 * max(abs(own[k]), 1):
                        far = True
            if far:
                labels.append("eps:>5%")
            nontriv = far
            sig += [case["threept"], sorted(case["given"])]
        else:
            if mode == "hysteps":
                labels.append("threept" if case["threept"] else "twopt")
                for f in case["flags"]:
                    labels.append("hysteps:" + f)
                if any(c["iep"] != c["ep"] for c in case["cells"]):
                    labels.append("hysteps:imb-endpoints!=drain-endpoints")
                if any(c["ident"] for c in case["cells"]):
                    labels.append("hysteps:identical")
                sig += [case["threept"], sorted(case["flags"])]
            labels.append("hyst:model%d" % case["model"])
            if any(any(c.get("hist_w") or []) for c in case["cells"]):
                labels.append("hyst:gas-history-with-mobile-water")
            nrev = 0
            same = True
            for c in case["cells"]:
                nrev = max(nrev, self.reversals(c["hist"]))
                labels.append("corner:" + c["corner"])
                if self.same_curves(case, c):
                    labels.append("hyst:imb==drain")
                else:
                    labels.append("hyst:imb!=drain")
                    same = False
            labels.append("hyst:reversals:%s" % (nrev if nrev < 3 else ">=3"))
            nontriv = nrev >= 2
            sig += [case["model"], same, min(nrev, 3), sorted(set(c["corner"] for c in case["cells"]))]
        if nontriv:
            labels.append("nontrivial")
        return nontriv, sha(sig, 16), sorted(set(labels))

    def known_key(self, case, viol):
        """VERIF_C15_IGNORE_KNOWN=key1,key2: treat these known_findings lines as absent (used to verify a fix of the
        corresponding defect: the signature must then not occur at all)"""
        key = viol.get("key")
        ignored = [k for k in os.environ.get("VERIF_C15_IGNORE_KNOWN", "").split(",") if k]
        return None if key in ignored else key

    def floors(self, tier):
        return {"nontrivial": 0.2, "mode:unscaled": 0.1, "mode:identity": 0.05, "mode:eps": 0.15, "mode:hyst": 0.08,
                "mode:hysteps": 0.15, "hysteps:imb-endpoints!=drain-endpoints": 0.08, "hysteps:identical": 0.02,
                "phases:OWG": 0.2, "phases:OW": 0.1, "phases:GO": 0.1, "threept": 0.1, "hyst:imb!=drain": 0.05,
                "hyst:imb==drain": 0.05, "eps:>5%": 0.1}

    def sample_view(self, case):
        v = {k: case[k] for k in ("mode", "phases", "kro3", "threept", "family") if k in case}
        v["given"] = case.get("given")
        v["flags"] = case.get("flags")
        v["model"] = case.get("model")
        v["rows"] = [[len(r.get("sw", [])), len(r.get("sg", []))] for r in case["regs"]]
        v["cells"] = case["cells"]
        v["first_region"] = {k: case["regs"][0].get(k) for k in ("sw", "krw", "krow", "pcow", "sg", "krg", "krog", "pcog")}
        return v

    # ------------------------------------------------------------ helpers
    @staticmethod
    def same_curves(case, cell):
        a = case["regs"][cell["satnum"] - 1]
        b = case["regs"][cell["imbnum"] - 1]
        keys = ("sw", "krw", "krow", "pcow", "sg", "krg", "krog", "pcog")
        return all(a.get(k) == b.get(k) for k in keys)

    def run(self, P, deck, progs):
        cells = [{"elem": i, "prog": p} for i, p in enumerate(progs)]
        return P.call("satfunc_run", deck=deck, cells=cells)

    def V(self, rule, detail, key=None):
        return {"rule": rule, "detail": detail, "key": key}

    def compare_point(self, what, got, exp, sc, tol, ctxinfo):
        for k, e in exp.items():
            g = got[k]
            if not (abs(g - e) <= tol * max(sc[k], abs(e))):     # NaN fails
                return self.V(what, dict(ctxinfo, quantity=k, got=g, expected=e, tol=tol * max(sc[k], abs(e))))
        return None

    # ------------------------------------------------------------ oracle
    def check(self, case, ctx):
        v = self.check_(case, ctx)
        if v is not None and v.get("key") is None and case["mode"] == "hysteps" and case["model"] in (0, 1) \
                and "KRNR" in case["flags"] and v["rule"].startswith("hysteresis: ") \
                and "recorded reversal" not in v["rule"] and "drainage curve" not in v["rule"]:
            # signature of a known defect: Carlson's shift is found with twoPhaseSatKrnInv, whose vertical part
            # (scaledToUnscaledKrn_) knows only the pure KRG/KRO scaling and ignores three-point vertical scaling
            # (KRGR / KRORW and their imbibition counterparts): the scanning curve misses the reversal point
            v["key"] = "hysteps-carlson-inverse-ignores-3pt-vertical"
        return v

    def check_(self, case, ctx):
        mode = case["mode"]
        if mode == "unscaled":
            return self.check_unscaled(case, ctx)
        if mode == "identity":
            return self.check_identity(case, ctx)
        if mode == "eps":
            return self.check_eps(case, ctx)
        return self.check_hyst(case, ctx)          # modes hyst and hysteps

    def cell_points(self, case, swl_of_cell, extra_of_cell=None):
        """per cell: list of (corner, s, triple)"""
        ph = case["phases"]
        res = []
        for ci, c in enumerate(case["cells"]):
            reg = case["regs"][c["satnum"] - 1]
            swl_int = swl_of_cell(ci)
            pts = []
            for corner in corners(ph):
                extra = extra_of_cell(ci, corner) if extra_of_cell else ()
                for s in eval_sats(reg, ph, corner, swl_int, extra):
                    pts.append((corner, s, point(ph, corner, s, fsat(swl_int))))
            res.append(pts)
        return res

    def check_tables(self, case, rep, pts, tol, who):
        """(i): every observation equals the table model; relperms within [0, column max]; monotone"""
        ph = case["phases"]
        for ci, c in enumerate(case["cells"]):
            reg = case["regs"][c["satnum"] - 1]
            m = RegModel(reg, ph)
            sc = scales(m, ph)
            rc = rep["cells"][ci]
            if rc["satnum"] != c["satnum"] - 1:
                return self.V("manager reports another SATNUM region than the deck", [ci, rc["satnum"], c["satnum"]])
            ev = rc["res"][0]["eval"]
            swl = m.swco
            prev = {}
            kmax = {"krw": max(m.krw_) if m.W else 0.0, "krg": max(m.krg_) if m.G else 0.0,
                    "kro": max((m.krow_ if m.W else []) + (m.krog_ if m.G else []))}
            for (corner, s, trip), v in zip(pts[ci], ev):
                got = obs(v)
                exp = expected(m, ph, corner, s, swl)
                r = self.compare_point("%s: value differs from the input table" % who, got, exp, sc, tol,
                                       {"cell": ci, "satnum": c["satnum"], "corner": corner, "S": s, "state": trip})
                if r:
                    return r
                for k in ("krw", "kro", "krg"):
                    if k in exp and not (-SLACK <= got[k] <= kmax[k] * (1 + SLACK) + SLACK):
                        return self.V("%s: relperm outside [0, column maximum]" % who,
                                      {"cell": ci, "corner": corner, "S": s, "quantity": k, "got": got[k], "max": kmax[k]})
                # monotone in own saturation between consecutive evaluation points of one corner
                p = prev.get(corner)
                if p is not None:
                    inc = ["krw"] if corner == "w" else ["krg"]
                    for k in inc:
                        if k in exp and got[k] < p[k] - SLACK:
                            return self.V("%s: %s decreases with its own saturation" % (who, k),
                                          {"cell": ci, "corner": corner, "S": s, "got": got[k], "previous": p[k]})
                    if got["kro"] > p["kro"] + SLACK:
                        return self.V("%s: kro increases while oil saturation decreases" % who,
                                      {"cell": ci, "corner": corner, "S": s, "got": got["kro"], "previous": p["kro"]})
                prev[corner] = got
        return None

    def check_unscaled(self, case, ctx):
        ph = case["phases"]
        pts = self.cell_points(case, lambda ci: (case["regs"][case["cells"][ci]["satnum"] - 1].get("sw") or [0])[0])
        progs = [[{"op": "eval", "s": [t for (_, _, t) in p]}] for p in pts]
        rep1 = self.run(ctx.P, deck_text(case, family=1), progs)
        if rep1["hyst"]:
            return self.V("hysteresis reported active without SATOPTS", rep1["hyst"])
        r = self.check_tables(case, rep1, pts, TOL_TABLE, "family I")
        if r:
            return r
        rep2 = self.run(ctx.P, deck_text(case, family=2), progs)
        r = self.check_tables(case, rep2, pts, TOL_META, "family II")
        if r:
            return r
        r = self.compare_reports(case, rep1, rep2, pts, "family I vs family II")
        if r or ph != "OWG":
            return r
        rep3 = self.run(ctx.P, deck_text(case, family=3), progs)
        r = self.check_tables(case, rep3, pts, TOL_META, "family I with SLGOF")
        if r:
            return r
        return self.compare_reports(case, rep1, rep3, pts, "SGOF vs SLGOF")

    def compare_reports(self, case, repa, repb, pts, who):
        ph = case["phases"]
        for ci, c in enumerate(case["cells"]):
            m = RegModel(case["regs"][c["satnum"] - 1], ph)
            sc = scales(m, ph)
            for (corner, s, trip), va, vb in zip(pts[ci], repa["cells"][ci]["res"][0]["eval"],
                                                 repb["cells"][ci]["res"][0]["eval"]):
                a, b = obs(va), obs(vb)
                keys = [k for k in a if k in sc]
                r = self.compare_point(who + ": results differ", b, {k: a[k] for k in keys}, sc, TOL_META,
                                       {"cell": ci, "corner": corner, "S": s, "state": trip})
                if r:
                    return r
        return None

    def own_arrays(self, case, given):
        ph = case["phases"]
        arrays = {}
        for k in given:
            vals = []
            for c in case["cells"]:
                own = ep_of(case["regs"][c["satnum"] - 1], ph)
                vals.append(self.ep_text(k, own[k]))
            arrays[k] = vals
        return arrays

    @staticmethod
    def ep_text(k, v):
        if k in PC_KW:
            return dec(v, 3)
        if k in ("SOWCR", "SOGCR"):
            # the table's own value is a difference of table saturations: exact in integers
            return dec(v, 4)
        return dec(v, 4)

    def check_identity(self, case, ctx):
        ph = case["phases"]
        pts = self.cell_points(case, lambda ci: (case["regs"][case["cells"][ci]["satnum"] - 1].get("sw") or [0])[0])
        progs = [[{"op": "eval", "s": [t for (_, _, t) in p]}] for p in pts]
        fam = case.get("family", 1)
        rep0 = self.run(ctx.P, deck_text(case, family=fam), progs)
        r = self.check_tables(case, rep0, pts, TOL_TABLE if fam == 1 else TOL_META, "no ENDSCALE")
        if r:
            return r
        given = [k for k in case["given"]]
        if any(ep_of(rg, ph).get("PCW", 1) == 0 for rg in case["regs"]):
            given = [k for k in given if k != "PCW"]       # PCW = 0 would ask for 0/0 (outside the domain)
        if any(ep_of(rg, ph).get("PCG", 1) == 0 for rg in case["regs"]):
            given = [k for k in given if k != "PCG"]
        rep1 = self.run(ctx.P, deck_text(case, family=fam, endscale=True, arrays=self.own_arrays(case, given)), progs)
        r = self.compare_reports(case, rep0, rep1, pts, "ENDSCALE with the table's own end-points vs no ENDSCALE")
        if r:
            r["detail"]["given"] = given
            r["detail"]["threept"] = case["threept"]
        return r

    def check_eps(self, case, ctx):
        ph = case["phases"]
        given = case["given"]
        three = case["threept"]
        arrays = {k: [self.ep_text(k, c["ep"][k]) for c in case["cells"]] for k in given}
        # evaluation points: table rows, grid, and the scaled end-points themselves
        tests = []          # per cell list of (corner, S, quantity, kind, expected, label)
        extra = {}
        for ci, c in enumerate(case["cells"]):
            own = ep_of(case["regs"][c["satnum"] - 1], ph)
            e = c["ep"]
            f = {k: (float(self.ep_text(k, v)) * (BAR if k in PC_KW else 1.0)) for k, v in e.items()}
            fo = {k: (float(self.ep_text(k, v)) * (BAR if k in PC_KW else 1.0)) for k, v in own.items()}
            t = []

            def vert(big, small):
                """value expected at the displacing critical saturation"""
                if small in given:
                    return f[small]
                return fo[small] * (f[big] / fo[big])         # pure vertical scaling by the maximum
            if "W" in ph:
                swl = f["SWL"]
                t.append(("w", f["SWCR"], "krw", "eq", 0.0, "krw(SWCR)=0"))
                t.append(("w", f["SWCR"] + 1.0e-3, "krw", "gt0", None, "krw>0 above SWCR"))
                t.append(("w", f["SWU"], "krw", "eq", f["KRW"], "krw(SWU)=KRW"))
                t.append(("w", 1.0 - f["SOWCR"], "kro", "eq", 0.0, "krow(1-SOWCR)=0"))
                t.append(("w", (1.0 - f["SOWCR"]) - 1.0e-3, "kro", "gt0", None, "krow>0 below 1-SOWCR"))
                t.append(("w", swl, "kro", "eq", f["KRO"], "krow(SWL)=KRO"))
                t.append(("w", swl, "pcow", "eq", f["PCW"], "pcow(SWL)=PCW"))
                if three and e["SWU"] < Q - e["SOWCR"]:
                    ctx.label("eps:SWU-below-1-SOWCR")
                    t.append(("w", 1.0 - f["SOWCR"], "krw", "eq", f["KRW"], "krw(1-SOWCR > SWU)=KRW"))
                    t.append(("w", 0.5 * (f["SWU"] + 1.0 - f["SOWCR"]), "krw", "eq", f["KRW"], "krw(between SWU and 1-SOWCR)=KRW"))
                    t.append(("w", f["SWCR"], "kro", "eq", vert("KRO", "KRORW"), "krow(SWCR)=KRORW"))
                elif three:
                    t.append(("w", 1.0 - f["SOWCR"], "krw", "eq", vert("KRW", "KRWR"), "krw(1-SOWCR)=KRWR"))
                    t.append(("w", f["SWCR"], "kro", "eq", vert("KRO", "KRORW"), "krow(SWCR)=KRORW"))
            else:
                swl = 0.0
            if "G" in ph:
                sgr = 1.0 - f["SOGCR"] - swl
                t.append(("g", f["SGCR"], "krg", "eq", 0.0, "krg(SGCR)=0"))
                t.append(("g", f["SGCR"] + 1.0e-3, "krg", "gt0", None, "krg>0 above SGCR"))
                t.append(("g", f["SGU"], "krg", "eq", f["KRG"], "krg(SGU)=KRG"))
                t.append(("g", sgr, "kro", "eq", 0.0, "krog(1-SOGCR-SWL)=0"))
                t.append(("g", sgr - 1.0e-3, "kro", "gt0", None, "krog>0 below 1-SOGCR-SWL"))
                t.append(("g", 0.0, "kro", "eq", f["KRO"], "krog(SGL)=KRO"))
                t.append(("g", f["SGU"], "pcgo", "eq", f["PCG"], "pcgo(SGU)=PCG"))
                if three:
                    t.append(("g", sgr, "krg", "eq", vert("KRG", "KRGR"), "krg(1-SOGCR-SWL)=KRGR"))
                    t.append(("g", f["SGCR"], "kro", "eq", vert("KRO", "KRORG"), "krog(SGCR)=KRORG"))
            tests.append(t)
            for corner in corners(ph):
                extra[(ci, corner)] = [x[1] for x in t if x[0] == corner]
        pts = self.cell_points(case, lambda ci: case["cells"][ci]["ep"].get("SWL", 0),
                               lambda ci, corner: extra[(ci, corner)])
        progs = [[{"op": "eval", "s": [tr for (_, _, tr) in p]}] for p in pts]
        rep = self.run(ctx.P, deck_text(case, family=case.get("family", 1), endscale=True, arrays=arrays), progs)
        for ci, c in enumerate(case["cells"]):
            own = ep_of(case["regs"][c["satnum"] - 1], ph)
            m = RegModel(case["regs"][c["satnum"] - 1], ph)
            pcs = {"pcow": max(m.scale_pcow() if m.W else 1.0, abs(c["ep"].get("PCW", 0)) / PQ * BAR),
                   "pcgo": max(m.scale_pcog() if m.G else 1.0, abs(c["ep"].get("PCG", 0)) / PQ * BAR)}
            ev = rep["cells"][ci]["res"][0]["eval"]
            table = {}
            for (corner, s, trip), v in zip(pts[ci], ev):
                table[(corner, s)] = (obs(v), trip)
            info = {"cell": ci, "satnum": c["satnum"], "given": given, "threept": three, "family": case.get("family", 1),
                    "endpoints": {k: self.ep_text(k, v) for k, v in c["ep"].items()},
                    "table_endpoints": {k: self.ep_text(k, v) for k, v in own.items()}}

            def flat(corner, q, own=own):
                """three-point vertical scaling requested for a curve whose table value at the displacing critical
                saturation equals the table maximum (signature of two known defects)"""
                fwo = "KRORW" in given and own.get("KRORW") == own.get("KRO")
                fgo = "KRORG" in given and own.get("KRORG") == own.get("KRO")
                if q == "kro":
                    return (fwo or fgo) if ph == "OWG" else (fwo if corner == "w" else fgo)
                if q == "krw":
                    return "KRWR" in given and own["KRWR"] == own["KRW"]
                if q == "krg":
                    return "KRGR" in given and own["KRGR"] == own["KRG"]
                return False
            ROUND = "eps-vert3pt-flat-table-rounding"
            # the manager's scaled oil-water info must carry the keyword values (observation of extractScaled)
            inf = rep["cells"][ci]["info"]
            for kw, name in (("SWL", "Swl"), ("SWCR", "Swcr"), ("SWU", "Swu"), ("SOWCR", "Sowcr"), ("SGCR", "Sgcr"),
                             ("SGU", "Sgu"), ("SOGCR", "Sogcr")):
                if kw in given and abs(hexf(inf[name]) - float(self.ep_text(kw, c["ep"][kw]))) > 1e-15:
                    return self.V("scaled end-point info does not carry the cell's keyword value",
                                  dict(info, keyword=kw, got=hexf(inf[name])))
            for (corner, s, q, kind, exp, label) in tests[ci]:
                hi = 1.0 if corner == "w" or ph == "GO" else 1.0 - float(self.ep_text("SWL", c["ep"].get("SWL", 0)))
                if not (0.0 <= s <= hi) or (corner, s) not in table:
                    continue
                got, trip = table[(corner, s)]
                ctx.label("ep-test:" + label.split("=")[0].split(">")[0])
                if kind == "eq":
                    scale = pcs[q] if q in pcs else 1.0
                    if not (abs(got[q] - exp) <= TOL_EPS * max(scale, abs(exp))):
                        return self.V("end-point mapping: " + label,
                                      dict(info, corner=corner, S=s, state=trip, quantity=q, got=got[q], expected=exp),
                                      ROUND if flat(corner, q) else None)
                else:
                    if not (got[q] > 0.0):
                        return self.V("end-point mapping: " + label,
                                      dict(info, corner=corner, S=s, state=trip, quantity=q, got=got[q]),
                                      ROUND if flat(corner, q) else None)
            # bounds and monotonicity of the scaled curves
            kmax = {"krw": c["ep"].get("KRW", 0) / Q, "krg": c["ep"].get("KRG", 0) / Q, "kro": c["ep"].get("KRO", 0) / Q}
            prev = {}
            for (corner, s, trip), v in zip(pts[ci], ev):
                got = obs(v)
                qs = (["krw"] if "W" in ph else []) + ["kro"] + (["krg"] if "G" in ph else [])
                for k in qs:
                    if not (-SLACK <= got[k] <= kmax[k] * (1 + 1e-12) + SLACK):
                        # signature of a known defect: three-point vertical scaling of a curve whose table value at
                        # the displacing critical saturation equals the table maximum, evaluated beyond the scaled
                        # maximum-saturation end-point
                        key = None
                        fe = {kk: float(self.ep_text(kk, vv)) for kk, vv in c["ep"].items()}
                        if got[k] > kmax[k]:
                            if corner == "w" and k == "kro" and "KRORW" in given and own["KRORW"] == own["KRO"] \
                                    and s < fe["SWL"]:
                                key = "eps-vert3pt-flat-table-extrapolates"
                            if corner == "w" and k == "krw" and "KRWR" in given and own["KRWR"] == own["KRW"] \
                                    and s > fe["SWU"]:
                                key = "eps-vert3pt-flat-table-extrapolates"
                            if corner == "g" and k == "krg" and "KRGR" in given and own["KRGR"] == own["KRG"] \
                                    and s > fe["SGU"]:
                                key = "eps-vert3pt-flat-table-extrapolates"
                        if key is None and flat(corner, k):
                            key = ROUND
                        return self.V("scaled relperm outside [0, scaled maximum]",
                                      dict(info, corner=corner, S=s, quantity=k, got=got[k], max=kmax[k]), key)
                p = prev.get(corner)
                if p is not None:
                    k = "krw" if corner == "w" else "krg"
                    if got[k] < p[k] - 1e-12:
                        return self.V("scaled %s decreases with its own saturation" % k,
                                      dict(info, corner=corner, S=s, got=got[k], previous=p[k]),
                                      ROUND if flat(corner, k) else None)
                    if got["kro"] > p["kro"] + 1e-12:
                        return self.V("scaled kro increases while oil saturation decreases",
                                      dict(info, corner=corner, S=s, got=got["kro"], previous=p["kro"]),
                                      ROUND if flat(corner, "kro") else None)
                prev[corner] = got
        return None

    # ------------------------------------------------------------ hysteresis
    def check_hyst(self, case, ctx):
        ph = case["phases"]
        model = case["model"]
        eps = case["mode"] == "hysteps"
        NG = 40
        progs = []
        plans = []
        for ci, c in enumerate(case["cells"]):
            reg = case["regs"][c["satnum"] - 1]
            swco = fsat(reg["sw"][0]) if "W" in ph else 0.0
            if eps and "W" in ph:
                swco = fsat(c["ep"]["SWL"])
            corner = c["corner"]
            snmax = 1.0 - swco                     # largest non-wetting saturation of the corner
            # corner coordinate s: Sw (water corner; non-wetting = oil, Sn = 1 - s) or Sg (gas corner; Sn = s)
            def s_of_sn(sn, corner=corner):
                return 1.0 - sn if corner == "w" else sn
            grid = [snmax * k / NG for k in range(NG + 1)]
            prog = []
            plan = []
            shy = None
            # histories stay inside the table's saturation range (beyond its last row the drainage curve is flat,
            # i.e. a plateau, where the horizontal shift of the scanning curve is not unique)
            hmax = snmax if corner == "w" else min(snmax, fsat(c["ep"]["SGU"] if eps else reg["sg"][-1]))
            for hi, h in enumerate(c["hist"]):
                sn = hmax * h / 1000.0
                shy = sn if shy is None else max(shy, sn)
                st_trip = point(ph, corner, s_of_sn(sn), swco)
                hw = c.get("hist_w")
                if hw and ph == "OWG" and corner == "g" and hw[hi]:
                    sw_ = swco + 0.9 * (1.0 - swco - sn) * hw[hi] / 1000.0
                    st_trip = [sw_, 1.0 - sw_ - sn, sn]
                prog.append({"op": "update", "s": st_trip})
                prog.append({"op": "hystparams"})
                sns = sorted(set(grid + [sn, shy]))
                if ph == "OWG":
                    # keep away from the regularised corner of the three-phase oil model
                    sns = [x for x in sns if not (snmax - 2.0e-5 < x < snmax)] if corner == "w" else \
                          [x for x in sns if not (0.0 < x < 2.0e-5)]
                probes = []
                ok_probe = shy - 3 * DELTA > 0.0
                if ph == "OWG" and corner == "w" and snmax - shy < 1.0e-4:
                    ok_probe = False
                if ph == "OWG" and corner == "g" and shy < 1.0e-4:
                    ok_probe = False
                if ok_probe:
                    probes = [shy - k * DELTA for k in (1, 2, 3)]
                allsn = sns + probes
                prog.append({"op": "eval", "s": [point(ph, corner, s_of_sn(x), swco) for x in allsn]})
                plan.append({"sn": sn, "shy": shy, "grid": sns, "probes": probes, "state": st_trip, "swco": swco})
            progs.append(prog)
            plans.append(plan)
        refs = None
        if not eps:
            rep = self.run(ctx.P, deck_text(case, family=1, hyst=True), progs)
        else:
            # drainage arrays (SATNUM curve) and imbibition arrays ('I' + keyword, IMBNUM curve) per cell
            kws = he_keywords(case["flags"], ph)
            darr = {k: [self.ep_text(k, c["ep"][k]) for c in case["cells"]] for k in kws}
            arrays = dict(darr)
            arrays.update({"I" + k: [self.ep_text(k, c["iep"][k]) for c in case["cells"]] for k in kws})
            rep = self.run(ctx.P, deck_text(case, family=1, endscale=True, arrays=arrays, hyst=True), progs)
            # the drainage curve: the same deck without hysteresis (no SATOPTS/EHYSTR/IMBNUM, drainage arrays only),
            # evaluated at the grid points and at the reversal saturation of every step
            rprogs = []
            for ci, c in enumerate(case["cells"]):
                corner = c["corner"]
                pts = []
                for pl in plans[ci]:
                    for x in pl["grid"] + [pl["shy"]]:
                        pts.append(point(ph, corner, (1.0 - x) if corner == "w" else x, pl["swco"]))
                rprogs.append([{"op": "eval", "s": pts}])
            rrep = self.run(ctx.P, deck_text(case, family=1, endscale=True, arrays=darr, hyst=False), rprogs)
            if rrep["hyst"]:
                return self.V("hysteresis reported active without SATOPTS", rrep["hyst"])
            refs = []
            for ci, c in enumerate(case["cells"]):
                ev = [obs(v) for v in rrep["cells"][ci]["res"][0]["eval"]]
                k = 0
                per = []
                for pl in plans[ci]:
                    n = len(pl["grid"])
                    per.append({"grid": ev[k:k + n], "shy": ev[k + n]})
                    k += n + 1
                refs.append(per)
        if not rep["hyst"] or not rep["nwhyst"] or rep["pchyst"]:
            return self.V("hysteresis flags differ from SATOPTS HYSTER / EHYSTR .. KR", {k: rep[k] for k in ("hyst", "nwhyst", "pchyst")})
        for ci, c in enumerate(case["cells"]):
            reg = case["regs"][c["satnum"] - 1]
            m = RegModel(reg, ph)
            swco = m.swco
            corner = c["corner"]
            q = "kro" if corner == "w" else "krg"
            drain = (lambda sn: m.krow(1.0 - sn)) if corner == "w" else (lambda sn: m.krg(sn))
            kmax = max(m.krow_) if corner == "w" else max(m.krg_)
            same = self.same_curves(case, c)
            if eps:
                swco = fsat(c["ep"]["SWL"]) if "W" in ph else 0.0
                kmax = c["ep"]["KRO" if corner == "w" else "KRG"] / Q
                # identical curves: same table and the imbibition arrays restate the drainage arrays
                same = same and c["ident"]
            rc = rep["cells"][ci]
            if rc["imbnum"] != c["imbnum"] - 1:
                return self.V("manager reports another IMBNUM region than the deck", [ci, rc["imbnum"], c["imbnum"]])
            res = rc["res"]
            sc = scales(m, ph)
            reversed_yet = False
            for t, pl in enumerate(plan_ for plan_ in plans[ci]):
                ev = res[3 * t + 2]["eval"]
                shy = pl["shy"]
                info = {"cell": ci, "satnum": c["satnum"], "imbnum": c["imbnum"], "corner": corner, "step": t,
                        "history_Sn": [p["sn"] for p in plans[ci][:t + 1]], "Shy": shy, "model": model}
                if eps:
                    kws = he_keywords(case["flags"], ph)
                    info.update(threept=case["threept"], drainage={k: self.ep_text(k, c["ep"][k]) for k in kws},
                                imbibition={"I" + k: self.ep_text(k, c["iep"][k]) for k in kws})
                if pl["sn"] < shy:
                    reversed_yet = True
                # the reversal point on record is the largest non-wetting saturation of the history (as handed to
                # updateHysteresis): soMax of the oil-water system / sgMax of the gas-oil system
                hp = res[3 * t + 1]
                seen = max(p["state"][1 if corner == "w" else 2] for p in plans[ci][:t + 1])
                rec = hexf(hp["ow"][0]) if corner == "w" else hexf(hp["go"][0])
                if not (abs(rec - seen) <= 1e-12):
                    return self.V("hysteresis: recorded reversal saturation (%s) is not the historical maximum of the "
                                  "non-wetting saturation" % ("soMax" if corner == "w" else "sgMax"),
                                  dict(info, recorded=rec, historical_max=seen))
                vals = [obs(v) for v in ev]
                g = vals[:len(pl["grid"])]
                pr = vals[len(pl["grid"]):]
                prevv = None
                for gi, (sn, o) in enumerate(zip(pl["grid"], g)):
                    v = o[q]
                    if not (-SLACK <= v <= kmax * (1 + 1e-12) + SLACK):       # NaN fails
                        return self.V("hysteresis: non-wetting relperm outside [0, maximum]", dict(info, Sn=sn, got=v))
                    if sn >= shy:
                        # on the drainage curve: until the first reversal, and beyond the historical maximum later
                        e = refs[ci][t]["grid"][gi][q] if eps else drain(sn)
                        if not (abs(v - e) <= TOL_TABLE * 10):
                            return self.V("hysteresis: non-wetting relperm leaves the drainage curve %s"
                                          % ("before the first reversal" if not reversed_yet else
                                             "at/above the historical maximum saturation"),
                                          dict(info, Sn=sn, got=v, drainage=e))
                    if prevv is not None and v < prevv - 1e-12:
                        return self.V("hysteresis: non-wetting relperm decreases with its own saturation "
                                      "(scanning curve not monotone)", dict(info, Sn=sn, got=v, previous=prevv))
                    prevv = v
                    if same and model in (0, 1):
                        # Carlson with identical curves: nothing changes, for any quantity
                        s = 1.0 - sn if corner == "w" else sn
                        if eps:
                            exp = {k: x for k, x in refs[ci][t]["grid"][gi].items() if k in sc}
                        else:
                            exp = expected(m, ph, corner, s, swco)
                        r = self.compare_point("hysteresis: Carlson with identical drainage and imbibition curves "
                                               "changes a result", o, exp, sc, TOL_META, dict(info, Sn=sn))
                        if r:
                            # signature of a known behaviour: the non-wetting drainage curve has a plateau (two rows
                            # with the same positive relperm), where the horizontal shift of the imbibition curve
                            # through the reversal point is not unique and the library picks the plateau's far end
                            col = reg["krow"] if corner == "w" else reg["krg"]
                            if r["detail"]["quantity"] == q and any(a == b and a > 0 for a, b in zip(col, col[1:])):
                                r["key"] = "carlson-identity-plateau-shift"
                            return r
                if pr:
                    f1, f2, f3 = (o[q] for o in pr)
                    if abs(f1 - 2 * f2 + f3) <= 1e-13:
                        ctx.label("hyst:continuity-checked")
                        lim = 2 * f1 - f2
                        e = refs[ci][t]["shy"][q] if eps else drain(shy)
                        if not (abs(lim - e) <= TOL_CONT):
                            return self.V("hysteresis: scanning curve does not start at the drainage value of the "
                                          "reversal point", dict(info, limit_from_below=lim, drainage_at_Shy=e,
                                                                 probes=[f1, f2, f3]))
                    else:
                        ctx.label("hyst:continuity-skipped(kink)")
                if reversed_yet:
                    ctx.label("hyst:step-after-reversal")
                else:
                    ctx.label("hyst:step-primary-drainage")
        return None
