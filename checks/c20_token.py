"""Token-mutation part of C20 (DESIGN: 'a second, cheaper line'): grammar decks and curated models in rewritten
layouts, mutated at token / line level, sent to the ASan+UBSan build of the probe.  No coverage guidance, but two
orders of magnitude more executions per second on mostly-valid text than libFuzzer reaches on this parser."""
import os

from hypothesis import strategies as st

from vlib import deckgen, layout, modelgen as MG
from vlib.runner import Check, sha
from vlib.probe import LibError

DICT = ["1*", "0*", "-1*", "3*", "9999999*", "*5", "*", "'", "/", "//", "--", "1e308", "-1e-320", "2147483647", "-2147483648",
        "2147483648", "'P1'", "'*'", "'P*'", "OPEN", "SHUT", "1", "0", "-1", "1.0", "ABCDEFGHIJ", "'A B'", "INCLUDE", "ENDINC", "END",
        "TITLE", "/ /", "\t", "3*1.5", "2*'X'", "1*1*", "**", "1.5D3", "nan", "inf", "''", "ACTIONX", "ENDACTIO", "UDQ", "DEFINE", "WOPR",
        "+", "(", ")", "^", "DATES", "TSTEP", "WELSPECS", "COMPDAT", "GRID", "SCHEDULE", "DIMENS", "EQUALS", "COPY", "BOX", "ENDBOX",
        "PATHS", "'INCDIR' '$INCDIR/x' /", "'$INCDIR/inc1.inc'", "'A' '$B' /", "'B' '$A' /", "'$A/f.inc'", "$", "TABDIMS", "WELLDIMS", "PVTO", "SWOF", "1000000", "0.0", "-0.0", "1e-300", "'?'", "'FIELD'", "FIELD", "METRIC", "LAB"]


def mutate(text, ints):
    lines = text.split("\n")
    k = 0

    def nxt(n):
        nonlocal k
        v = ints[k % len(ints)]
        k += 1
        return v % n if n else 0

    # include handling: PATHS aliases (nested / self-referential / unknown) are part of the INCLUDE mechanism
    for i, ln in enumerate(lines):
        if ln.strip().startswith("'INCDIR'") and nxt(3) == 0:
            lines[i] = [" 'INCDIR' '$INCDIR/sub' /", " 'INCDIR' '$OTHER' /\n 'OTHER' '$INCDIR' /", " 'INCDIR' '$NOPE/sub' /",
                        " 'INCDIR' 'sub' /\n 'INCDIR' '$INCDIR' /", " 'INCDIR' '' /"][nxt(5)]
    for _ in range(1 + nxt(4)):
        if not lines:
            break
        li = nxt(len(lines))
        op = nxt(10)
        if op == 0:
            del lines[li]
        elif op == 1:
            lines.insert(li, lines[li])
        elif op == 2:
            j = nxt(len(lines))
            lines[li], lines[j] = lines[j], lines[li]
        elif op == 3:
            lines.insert(li, DICT[nxt(len(DICT))])
        elif op == 4:
            lines = lines[:li]                      # truncate
        else:
            toks = lines[li].split()
            if not toks:
                lines[li] = DICT[nxt(len(DICT))]
                continue
            ti = nxt(len(toks))
            t = nxt(5)
            if t == 0:
                del toks[ti]
            elif t == 1:
                toks.insert(ti, toks[ti])
            elif t == 2:
                toks[ti] = DICT[nxt(len(DICT))]
            elif t == 3:
                toks.insert(ti, DICT[nxt(len(DICT))])
            else:
                s = toks[ti]
                if s:
                    ci = nxt(len(s))
                    toks[ti] = s[:ci] + "'*/-0123456789.eD+"[nxt(18)] + s[ci + 1:]
            lines[li] = " " + " ".join(toks)
    return "\n".join(lines)


@st.composite
def case_strategy(draw):
    ints = draw(st.lists(st.integers(0, 65535), min_size=24, max_size=24))
    ctx = draw(st.sampled_from(["strict", "warn", "ignore", "default"]))
    if draw(st.integers(0, 2)) == 0:
        # (rarely used keywords weighted up: their handlers are where unguarded assumptions live)
        blocks = draw(MG.gen_schedule(kinds=list(MG.GENERATORS) + list(MG.EXTRA_GENERATORS) + ["wellextra"] * 5 + ["rare"] * 5 + ["groupextra"] * 2))
        if draw(st.integers(0, 2)) == 0:
            # a report keyword in the old integer-control style, of arbitrary length (positions have meanings up to ~30..80)
            blocks[draw(st.integers(0, len(blocks) - 1))]["kws"].insert(0, "%s\n %s /\n" % (
                draw(st.sampled_from(["RPTRST", "RPTRST", "RPTSCHED"])), draw(MG.int_controls())))
        text = MG.render(blocks, draw(st.sampled_from(["METRIC", "FIELD", "LAB", "PVT-M"])),
                         static=draw(MG.gen_static()) if draw(st.booleans()) else None)
        files = {"ROOT.DATA": text}
        kind = "model"
    else:
        deck = draw(deckgen.gen_deck())
        files, root, _ = layout.render(deck, draw(st.lists(st.integers(0, 65535), min_size=20, max_size=40)))
        kind = "grammar"
    nmut = draw(st.integers(0, 3))
    return {"kind": kind, "files": files, "ints": ints, "ctx": ctx, "nmut": nmut}


class C20Token(Check):
    ID = "C20"
    REGRESS_PREFIX = "token__"
    PROBE = "san"
    PROBE_GROUP = "deck"
    PROBE_ENV = {"OMP_NUM_THREADS": "1"}
    RULE = "token-mutation part of C20 (see checks/c20.py)"
    EXAMPLES = {"quick": 400, "thorough": 6000}
    MIN_EVALS = {"quick": 1, "thorough": 1}
    TIME_CAP = {"quick": 45, "thorough": 420}
    MAX_REJECT = 1.0
    _hang_seen = False

    def strategy(self, tier):
        return case_strategy()

    def texts(self, case):
        files = dict(case["files"])
        names = sorted(files)
        for m in range(case["nmut"]):
            n = names[(case["ints"][m] + m) % len(names)]
            files[n] = mutate(files[n], case["ints"][m * 5:] + case["ints"][:m * 5])
        return files

    def classify(self, case):
        return True, sha([case["files"], case["ints"], case["nmut"], case["ctx"]], 16), ["token:" + case["kind"], "token:mutations:%d" % case["nmut"]]

    def sample_view(self, case):
        f = self.texts(case)
        return {"ctx": case["ctx"], "files": {k: v[:500] for k, v in f.items()}}

    def known_key(self, case, viol):
        return viol.get("key")

    def plain_terminates(self, files, pctx, ctx):
        """True if the plain build answers (result, exception or crash - a crash there is a different finding, left to the
        sanitizer run of a smaller input) within 300 s (120 s while shrinking a hang)"""
        import os
        from vlib import build
        from vlib.probe import Probe, ProbeCrash
        exe = build.ensure_probe("plain", "deck") if not os.environ.get("VERIF_NOBUILD") else \
            os.path.join(build.BUILD, "opmprobe-plain-deck")
        P = Probe(exe, env=self.PROBE_ENV, tmp_root=ctx.tmp_root)
        P.timeout = 120.0 if C20Token._hang_seen else 300.0
        try:
            if len(files) == 1:
                P.call("parse_build", text=files["ROOT.DATA"], ctx=pctx)
            else:
                P.call("parse_build", files=files, root="ROOT.DATA", ctx=pctx)
            return True
        except LibError:
            return True
        except ProbeCrash as e:
            return "HANG" not in (e.stderr or "")
        finally:
            P.close()

    def check(self, case, ctx):
        from checks.c20 import signature
        from vlib.probe import ProbeCrash
        files = self.texts(case)
        # a request that does not come back within this bound is a hang (once one was seen, shrinking uses a shorter bound)
        ctx.P.timeout = 100.0 if not C20Token._hang_seen else 20.0
        try:
            if len(files) == 1:
                r = ctx.P.call("parse_build", text=files["ROOT.DATA"], ctx=case["ctx"])
            else:
                r = ctx.P.call("parse_build", files=files, root="ROOT.DATA", ctx=case["ctx"])
        except ProbeCrash as e:
            from checks.c20 import finding_key
            sig = finding_key("token", signature(e.stderr or ""))
            if sig.startswith("hang"):
                # no reply from the sanitizer build within the bound: hang, or merely slow there (a repeat count of 10^7
                # takes seconds in a normal build and minutes under ASan on a loaded machine)?  Ask the plain build,
                # which has asserts on and no sanitizer, with a generous bound; only no answer there either is a hang.
                if self.plain_terminates(files, case["ctx"], ctx):
                    ctx.label("token:slow-under-sanitizer-not-a-hang")
                    return None
                C20Token._hang_seen = True
            return {"rule": "crash (sanitizer report / signal / exit) while parsing or building state from generated-and-mutated deck text",
                    "detail": {"signature": sig, "stderr": (e.stderr or "")[:3500], "files": files, "ctx": case["ctx"]}, "key": sig}
        ctx.label("token:stage:" + r["stage"])
        return None
