"""C06 - well connection factors obey the Peaceman relation for every COMPDAT input; COMPDAT / WPIMULT /
WELOPEN / COMPLUMP histories change only the targeted connections.

Part A (per record): a generated one-connection-per-well model is rendered as deck text in one of the four unit
systems, the Schedule is built by the library and every stored connection is compared with an independent
Peaceman reference (typed from Peaceman 1983 / the ECLIPSE COMPDAT description, not from WellConnections.cpp).
Part B (histories): an ordered connection-list model is run over the generated keyword sequence and compared
with Schedule::getWell(name, step).getConnections() after every report step.
"""
import math

from hypothesis import strategies as st

from vlib import refunits as R
from vlib.probe import hexf
from vlib.runner import Check, sha

TWO_PI = 2.0 * math.pi
ULP = 2.0 ** -52
# EPS0: generous bound for a chain of <= ~30 correctly-rounded-to-1-ulp operations (text -> double <= 2 ulp in
# boost::spirit, unit factor product <= 4 ulp between my table and the library's, sqrt/pow/log/exp/div <= 1 ulp each)
EPS0 = 64 * ULP
UNITS = list(R.SYSTEMS)
DIRS = ["X", "Y", "Z"]
U_MIN, U_MAX = 0.1, 7.0          # free ln(r0/rw): r0 between 1.1 rw and ~1100 rw
S_MIN, S_MAX = -3.0, 20.0
DEN_MIN = 0.05                   # ln(r0/rw) + S >= DEN_MIN  (domain of the identity, DESIGN C06)
GEO_MIN = 6.0                    # every effective extent >= 6 rw_max  =>  r0 >= 0.198*6 rw = 1.19 rw > e^0.1 rw
KNOWN_PI = "r0-backcomputed-with-truncated-pi"


def factors(units):
    return {"L": R.dim(units, "Length")[0],
            "K": R.dim(units, "Permeability")[0],
            "KH": R.dim(units, "Permeability*Length")[0],
            # COMPDAT item 8: cP * reservoir volume / (time * pressure)
            "T": R.dim(units, "Viscosity*ReservoirVolume/Time*Pressure")[0]}


def num(x):
    """deck token of a double: shortest text that reads back to the same double"""
    s = repr(float(x))
    if s.endswith(".0"):
        s = s[:-2]
    return s


class Q:
    """a deck quantity: the token text and the SI value the deck states (text * my unit factor)"""

    def __init__(self, si_nominal, factor):
        self.text = num(si_nominal / factor)
        self.si = float(self.text) * factor


# ------------------------------------------------------------------------------------------------ reference
def peaceman_cell(dims, perm, ntg, direction):
    """Peaceman (1983) equivalent radius and Kh of a well through the cell centre along `direction`.
    dims = (DX, DY, DZ), perm = (Kx, Ky, Kz); the net-to-gross ratio scales the vertical extent.
    K1, K2 / D1, D2 are the permeabilities / extents perpendicular to the well, D3 the extent along it."""
    ext = (dims[0], dims[1], dims[2] * ntg)
    along = DIRS.index(direction)
    p1, p2 = [a for a in (0, 1, 2) if a != along]
    k1, k2 = perm[p1], perm[p2]
    d1, d2 = ext[p1], ext[p2]
    r0 = 0.28 * math.sqrt(math.sqrt(k2 / k1) * d1 * d1 + math.sqrt(k1 / k2) * d2 * d2) / \
        ((k2 / k1) ** 0.25 + (k1 / k2) ** 0.25)
    kh = math.sqrt(k1 * k2) * ext[along]
    return r0, kh, (d1, d2, ext[along]), (k1, k2)


class Model:
    """deck numbers of the grid as the deck states them (SI), and their rounding-noise bounds"""

    def __init__(self, case):
        g = case["grid"]
        self.units = case["units"]
        self.f = factors(self.units)
        self.nx, self.ny, self.nz = g["nx"], g["ny"], g["nz"]
        self.ncell = self.nx * self.ny * self.nz
        rmax = max(case["dhi"] / 2.0, 0.5 * R.FOOT)
        self.rmax = rmax
        lo = max(1.0, GEO_MIN * rmax)
        fl = self.f["L"]
        self.dxv = [Q(lo + t * (500.0 - lo), fl) for t in g["dxv"]]
        self.dyv = [Q(lo + t * (500.0 - lo), fl) for t in g["dyv"]]
        self.dzv = [Q(lo + t * (500.0 - lo), fl) for t in g["dzv"]]
        self.tops = Q(g["tops"], fl)
        self.perm = [[Q(10.0 ** e * R.MD, self.f["K"]) for e in g[k]] for k in ("permx", "permy", "permz")]
        self.poro = [num(p) for p in g["poro"]]
        self.ntg = None
        if g.get("ntg") is not None:
            self.ntg = []
            for c, t in enumerate(g["ntg"]):
                k = c // (self.nx * self.ny)
                nlo = max(0.05, GEO_MIN * rmax / self.dzv[k].si)
                nlo = min(1.0, nlo * (1 + 1e-9))
                v = nlo + t * (1.0 - nlo)
                self.ntg.append(float(num(v)))
        self.actnum = g.get("actnum")
        # cell extents are differences of corner coordinates: absolute noise of a few ulp of the largest coordinate
        self.noise = [8 * ULP * sum(q.si for q in self.dxv), 8 * ULP * sum(q.si for q in self.dyv),
                      8 * ULP * (self.tops.si + sum(q.si for q in self.dzv))]

    def idx(self, i, j, k):
        return i + self.nx * (j + self.ny * k)

    def active(self, i, j, k):
        return self.actnum is None or self.actnum[self.idx(i, j, k)] == 1

    def cell(self, i, j, k, direction):
        c = self.idx(i, j, k)
        dims = (self.dxv[i].si, self.dyv[j].si, self.dzv[k].si)
        perm = tuple(self.perm[a][c].si for a in range(3))
        ntg = 1.0 if self.ntg is None else self.ntg[c]
        r0, kh, d, kk = peaceman_cell(dims, perm, ntg, direction)
        along = DIRS.index(direction)
        p1, p2 = [a for a in (0, 1, 2) if a != along]
        ext = (dims[0], dims[1], dims[2] * ntg)
        rel = [self.noise[a] / ext[a] * (ntg if a == 2 else 1.0) for a in range(3)]
        # r0 is homogeneous of degree 1 in (D1, D2) with positive weights; Kh is linear in D3
        tol_r0 = EPS0 + 2 * max(rel[p1], rel[p2])
        tol_kh = EPS0 + 2 * rel[along]
        return {"r0": r0, "kh": kh, "tol_r0": tol_r0, "tol_kh": tol_kh, "D": d, "K": kk}

    def grid_text(self):
        L = ["RUNSPEC", "DIMENS", " %d %d %d /" % (self.nx, self.ny, self.nz), "OIL", "WATER", "GAS"]
        if self.units != "METRIC":
            L.append(self.units)
        else:
            L.append("METRIC")
        L += ["START", " 1 'JAN' 2020 /", "WELLDIMS", " 200 50 10 200 /", "GRID"]
        L += ["DXV", " " + " ".join(q.text for q in self.dxv) + " /"]
        L += ["DYV", " " + " ".join(q.text for q in self.dyv) + " /"]
        L += ["DZV", " " + " ".join(q.text for q in self.dzv) + " /"]
        L += ["TOPS", " %d*%s /" % (self.nx * self.ny, self.tops.text)]
        for name, arr in zip(("PERMX", "PERMY", "PERMZ"), self.perm):
            L += [name, " " + " ".join(q.text for q in arr) + " /"]
        L += ["PORO", " " + " ".join(self.poro) + " /"]
        if self.ntg is not None:
            L += ["NTG", " " + " ".join(num(v) for v in self.ntg) + " /"]
        if self.actnum is not None:
            L += ["ACTNUM", " " + " ".join(str(v) for v in self.actnum) + " /"]
        L.append("SCHEDULE")
        return L


def skin_value(f, u):
    """skin drawn *given* ln(r0/rw) = u, so that u + S >= DEN_MIN; f in [0,1], f = 0 is the edge of the domain"""
    lo = max(S_MIN, DEN_MIN - u)
    lo = lo + 1e-9 * (1 + abs(lo))
    return lo + (S_MAX - lo) * f ** 3


def plan_record(M, rec):
    """COMPDAT record of part A: deck tokens and the values the property says must be stored."""
    i, j, k = rec["cell"]
    direction = rec["dir"]
    c = M.cell(i, j, k, direction)
    f = M.f
    if rec["dia"] is None:
        rw = 0.5 * R.FOOT                       # defaulted diameter: one foot
        dia_tok = "1*"
        tol_rw = EPS0
    else:
        q = Q(0.05 + rec["dia"] * (2 * M.rmax - 0.05) if 2 * M.rmax > 0.05 else 0.05, f["L"])
        rw = q.si / 2.0
        dia_tok = q.text
        tol_rw = EPS0
    r0p, khp = c["r0"], c["kh"]
    up = math.log(r0p / rw)
    ut = U_MIN + rec["u"] * (U_MAX - U_MIN)
    cf, kh, r0m = rec["cf"], rec["kh"], rec["r0"]
    cf_exp = cf in ("ref", "free")
    kh_exp = kh in ("ref", "free")
    mk, mc = 10.0 ** rec["m_kh"], 10.0 ** rec["m_cf"]

    # which ln(r0/rw) enters the relation
    if cf_exp and kh_exp:
        cls = "a"
        u = ut if (r0m == "free" or (r0m == "def" and (cf == "free" or kh == "free"))) else up
        if r0m == "free" and cf == "ref" and kh == "ref":
            cf = "free"
        if r0m == "ref" and cf == "ref" and kh == "free":
            cf = "free"
    elif cf_exp and kh == "zero":
        cls = "c"
        u = ut if cf == "free" else up
    else:
        cls = "b" if cf_exp else ("d" if kh_exp else "e")
        u = ut if r0m == "free" else up
    u_is_ref = (u == up)
    S = 0.0 if rec["skin"] is None else skin_value(rec["skin"], u)
    if rec["skin"] is None and u + S < DEN_MIN:
        S = skin_value(0.0, u)
    skin_tok = "1*" if (rec["skin"] is None and S == 0.0) else num(S)
    S = 0.0 if skin_tok == "1*" else float(skin_tok)
    den = u + S
    cfp = TWO_PI * khp / (up + S) if up + S >= DEN_MIN else None     # all-default CF (if in domain)

    # nominal (SI) explicit values that keep the triple consistent
    CFn = KHn = None
    if cls == "a":
        if kh == "ref":
            KHn = khp
            CFn = TWO_PI * KHn / den
            cf = "ref" if u_is_ref else "free"
        elif cf == "ref" and cfp is not None:
            CFn = cfp
            KHn = CFn * den / TWO_PI
        else:
            cf = "free"
            KHn = khp * mk
            CFn = TWO_PI * KHn / den
    elif cls == "b":
        CFn = (TWO_PI * khp / den) * (1.0 if cf == "ref" else mc)
    elif cls == "c":
        CFn = TWO_PI * khp / den
    elif cls == "d":
        KHn = khp * (1.0 if kh == "ref" else mk)

    toks = {"cf": "1*", "kh": "1*", "r0": "1*"}
    CFin = KHin = R0in = None
    if CFn is not None:
        q = Q(CFn, f["T"]); toks["cf"] = q.text; CFin = q.si
    elif cf == "zero":
        toks["cf"] = "0"
    if KHn is not None:
        q = Q(KHn, f["KH"]); toks["kh"] = q.text; KHin = q.si
    elif kh == "zero":
        toks["kh"] = "0"
    elif kh == "neg":
        toks["kh"] = num(-(0.5 + rec["u"]) * (khp / f["KH"]))
    if r0m in ("ref", "free"):
        q = Q(rw * math.exp(u), f["L"]); toks["r0"] = q.text; R0in = q.si

    # ---- what must be stored (the relation CF (ln(r0/rw)+S) = 2 pi Kh, defaults = Peaceman values of the cell)
    exp = {"rw": rw, "skin": S, "tol_rw": tol_rw}
    derived_r0 = False
    if cls == "a":
        exp["CF"], exp["tol_CF"] = CFin, EPS0
        exp["Kh"], exp["tol_Kh"] = KHin, EPS0
        if R0in is not None:
            exp["r0"], exp["tol_r0"] = R0in, EPS0
        else:
            derived_r0 = True
    elif cls == "c":
        exp["CF"], exp["tol_CF"] = CFin, EPS0
        exp["Kh"], exp["tol_Kh"] = khp, c["tol_kh"]
        derived_r0 = True
    else:
        if R0in is not None:
            exp["r0"], exp["tol_r0"] = R0in, EPS0
        else:
            exp["r0"], exp["tol_r0"] = r0p, c["tol_r0"]
        L = math.log(exp["r0"] / rw)
        d = L + S
        dden = exp["tol_r0"] + tol_rw + EPS0 * (abs(L) + abs(S))
        if cls == "b":
            exp["CF"], exp["tol_CF"] = CFin, EPS0
            exp["Kh"] = CFin * d / TWO_PI
            exp["tol_Kh"] = 2 * EPS0 + dden / d
        else:
            if cls == "d":
                exp["Kh"], exp["tol_Kh"] = KHin, EPS0
            else:
                exp["Kh"], exp["tol_Kh"] = khp, c["tol_kh"]
            exp["CF"] = TWO_PI * exp["Kh"] / d
            exp["tol_CF"] = exp["tol_Kh"] + EPS0 + dden / d
    if derived_r0:
        A = TWO_PI * exp["Kh"] / exp["CF"]
        exp["r0"] = rw * math.exp(A - S)
        # error of the exponent: |A| (rel Kh + rel CF) + rounding of A - S; relative error of exp() = that
        exp["tol_r0"] = 2 * EPS0 + abs(A) * (exp["tol_Kh"] + exp["tol_CF"] + EPS0) + abs(S) * EPS0 + tol_rw
        exp["A"] = A
    exp["derived_r0"] = derived_r0

    free = [n for n, m in (("cf", cf), ("kh", kh), ("r0", r0m)) if m == "free"]
    eff = {"cf": cf, "kh": kh, "r0": r0m, "dia": "def" if rec["dia"] is None else "exp"}
    k1, k2 = c["K"]
    d1, d2, _ = c["D"]
    aniso = not (0.5 <= k1 / k2 <= 2.0) and abs(d1 - d2) > 1e-6 * max(d1, d2)
    record = "'%s' %d %d %d %d %s 1* %s %s %s %s 1* %s %s /" % (
        rec["well"], i + 1, j + 1, k + 1, k + 1, rec.get("state", "OPEN"), toks["cf"], dia_tok, toks["kh"],
        skin_tok, direction, toks["r0"])
    twin = None
    has_ref = any(m == "ref" for m in (cf, kh, r0m))
    if not free and has_ref and up + S >= DEN_MIN:
        twin = "'%sT' %d %d %d %d %s 1* 1* %s 1* %s 1* %s 1* /" % (
            rec["well"], i + 1, j + 1, k + 1, k + 1, rec.get("state", "OPEN"), dia_tok, skin_tok, direction)
    return {"record": record, "twin": twin, "exp": exp, "cls": cls, "eff": eff, "free": free, "aniso": aniso,
            "dir": direction, "neg_skin": S < 0, "den": den, "cell": c}


def rel(a, b):
    if a == b:
        return 0.0
    return abs(a - b) / max(abs(a), abs(b))


def conn_vals(c):
    return {k: hexf(c[k]) for k in ("CF", "Kh", "rw", "r0", "skin")}


def identity_residual(v):
    """relative residual of CF (ln(r0/rw) + S) = 2 pi Kh on the stored numbers and its rounding bound"""
    L = math.log(v["r0"] / v["rw"])
    den = L + v["skin"]
    lhs = v["CF"] * den
    rhs = TWO_PI * v["Kh"]
    # the library rounds r0/rw, log, the sum and the quotient: absolute noise of the denominator is a few ulp of
    # (1 + |L| + |S|); relative to the denominator this is amplified by cancellation
    bound = EPS0 * (1.0 + (1.0 + abs(L) + abs(v["skin"])) / abs(den)) if den != 0 else float("inf")
    return rel(lhs, rhs), bound, L, den


# -------------------------------------------------------------------------------------------- strategies
unit01 = st.floats(min_value=0.0, max_value=1.0, allow_nan=False, width=64)


def sym(lo, hi):
    return st.floats(min_value=lo, max_value=hi, allow_nan=False, width=64)


def flist(elem, n):
    return st.lists(elem, min_size=n, max_size=n)


@st.composite
def grid_strategy(draw, nxy, nzmin, nzmax, holes):
    nx, ny = draw(st.integers(1, nxy)), draw(st.integers(1, nxy))
    nz = draw(st.integers(nzmin, nzmax))
    n = nx * ny * nz
    g = {"nx": nx, "ny": ny, "nz": nz,
         "dxv": [t * t for t in draw(flist(unit01, nx))],
         "dyv": [t * t for t in draw(flist(unit01, ny))],
         "dzv": [t * t for t in draw(flist(unit01, nz))],
         "tops": draw(st.sampled_from([0.0, 1000.0, 2500.0]) | sym(0.0, 3000.0))}
    iso = draw(st.integers(0, 9)) == 0
    for kname in ("permx", "permy", "permz"):
        g[kname] = draw(flist(sym(-2.0, 4.0), n))
    if iso:
        g["permy"] = list(g["permx"])
    g["poro"] = [0.05 + 0.3 * draw(unit01)] * n
    g["ntg"] = None if draw(st.integers(0, 4)) == 0 else draw(flist(unit01, n))
    g["actnum"] = None
    if holes and n >= 6 and draw(st.booleans()):
        a = draw(flist(st.sampled_from([1, 1, 1, 1, 1, 0]), n))
        if sum(a) >= 3:
            g["actnum"] = a
    return g


@st.composite
def record_strategy(draw, g, well):
    return {"well": well,
            "cell": [draw(st.integers(0, g["nx"] - 1)), draw(st.integers(0, g["ny"] - 1)),
                     draw(st.integers(0, g["nz"] - 1))],
            "dir": draw(st.sampled_from(DIRS)),
            "dia": draw(st.none() | unit01),
            "skin": draw(st.none() | unit01),
            "cf": draw(st.sampled_from(["def", "def", "ref", "free", "free", "zero"])),
            "kh": draw(st.sampled_from(["def", "def", "ref", "free", "free", "zero", "neg"])),
            "r0": draw(st.sampled_from(["def", "def", "ref", "free"])),
            "m_kh": draw(sym(-2.0, 2.0)), "m_cf": draw(sym(-2.0, 2.0)), "u": draw(unit01),
            "state": draw(st.sampled_from(["OPEN", "OPEN", "SHUT", "AUTO"]))}


@st.composite
def case_a(draw):
    g = draw(grid_strategy(2, 1, 3, False))
    nrec = draw(st.integers(1, 6))
    recs = [draw(record_strategy(g, "W%d" % (r + 1))) for r in range(nrec)]
    return {"part": "A", "units": draw(st.sampled_from(UNITS)), "dhi": draw(sym(0.05, 0.6)), "grid": g,
            "records": recs}


def _target(draw, c, n, with_range):
    """which items of a connection-addressing record are given, and their values"""
    t = {}
    for name, val, hi in (("i", c[0], 3), ("j", c[1], 3), ("k", c[2], 5)):
        if draw(st.booleans()):
            t[name] = val if draw(st.integers(0, 7)) else draw(st.integers(0, hi - 1))
        else:
            t[name] = None
    if with_range:
        t["c1"] = draw(st.none() | st.integers(1, n + 1))
        t["c2"] = draw(st.none() | st.integers(1, n + 1))
    return t


@st.composite
def case_b(draw):
    g = draw(grid_strategy(3, 2, 5, True))
    nx, ny, nz = g["nx"], g["ny"], g["nz"]
    nwell = draw(st.integers(1, 2))
    wells = []
    for w in range(nwell):
        order = draw(st.sampled_from([None, "TRACK", "DEPTH", "INPUT", "INPUT"]))
        column = True if order == "DEPTH" else draw(st.booleans())
        wells.append({"name": "W%d" % (w + 1), "order": order, "column": column,
                      "head": [draw(st.integers(0, nx - 1)), draw(st.integers(0, ny - 1))]})
    act = g["actnum"]
    have = [[] for _ in wells]
    steps = []
    for s in range(draw(st.integers(2, 5))):
        ops = []
        for _ in range(draw(st.integers(1 if s == 0 else 0, 5))):
            w = draw(st.integers(0, nwell - 1))
            W = wells[w]
            conns = have[w]
            kinds = ["compdat"]
            if conns:
                kinds += ["compdat", "reenter", "reenter", "wpimult", "wpimult", "wpimult_g", "welopen", "complump"]
            kind = draw(st.sampled_from(kinds))
            if kind in ("compdat", "reenter"):
                if kind == "reenter":
                    c = conns[draw(st.integers(0, len(conns) - 1))]
                    i, j, k1 = c
                    k2 = min(nz - 1, k1 + draw(st.sampled_from([0, 0, 0, 1])))
                else:
                    if W["column"]:
                        i, j = W["head"]
                    else:
                        i, j = draw(st.integers(0, nx - 1)), draw(st.integers(0, ny - 1))
                    k1 = draw(st.integers(0, nz - 1))
                    k2 = min(nz - 1, k1 + draw(st.integers(0, 2)))
                    if not W["column"] and conns and draw(st.integers(0, 2)) == 0:
                        # the mirror image of an existing connection about the well head, same layer: two connections at
                        # exactly the same distance from the head (ties in the TRACK ordering)
                        ci, cj, ck = conns[draw(st.integers(0, len(conns) - 1))]
                        mi, mj = 2 * W["head"][0] - ci, 2 * W["head"][1] - cj
                        if draw(st.booleans()):
                            mj = cj if 0 <= mi < nx and mi != ci else mj
                        if 0 <= mi < nx and 0 <= mj < ny:
                            i, j, k1, k2 = mi, mj, ck, ck
                for k in range(k1, k2 + 1):
                    idx = i + nx * (j + ny * k)
                    if (act is None or act[idx] == 1) and [i, j, k] not in conns:
                        conns.append([i, j, k])
                ops.append({"op": "compdat", "well": w, "i": i, "j": j, "k1": k1, "k2": k2,
                            "ijdef": draw(st.sampled_from([None, None, "0", "1*"])) if [i, j] == W["head"] else None,
                            "state": draw(st.sampled_from(["OPEN", "OPEN", "SHUT", "AUTO"])),
                            "dir": draw(st.sampled_from(["Z", "Z", "X", "Y"])),
                            "cf": draw(st.sampled_from(["def", "def", "free"])), "m_cf": draw(sym(-2.0, 2.0)),
                            "skin": draw(st.none() | unit01), "dia": draw(st.none() | unit01)})
            elif kind == "wpimult_g":
                ops.append({"op": "wpimult", "well": w, "f": draw(sym(0.1, 10.0)),
                            "i": None, "j": None, "k": None, "c1": None, "c2": None})
            elif kind in ("wpimult", "welopen"):
                c = conns[draw(st.integers(0, len(conns) - 1))]
                t = _target(draw, c, len(conns), True)
                if all(v is None for v in t.values()):
                    t["k"] = c[2]
                if kind == "wpimult":
                    t.update({"op": "wpimult", "well": w, "f": draw(sym(0.1, 10.0))})
                else:
                    t.update({"op": "welopen", "well": w, "status": draw(st.sampled_from(["OPEN", "SHUT"]))})
                ops.append(t)
            else:
                c = conns[draw(st.integers(0, len(conns) - 1))]
                k1 = draw(st.sampled_from([None, 0, c[2], c[2]]))
                k2 = draw(st.sampled_from([None, 0, c[2], min(nz - 1, c[2] + 1)]))
                ops.append({"op": "complump", "well": w,
                            "i": draw(st.sampled_from([None, 0, c[0] + 1])), "j": draw(st.sampled_from([None, 0, c[1] + 1])),
                            "k1": None if k1 is None else (0 if k1 == 0 and draw(st.booleans()) else k1 + 1),
                            "k2": None if k2 is None else (0 if k2 == 0 and draw(st.booleans()) else k2 + 1),
                            "n": draw(st.integers(1, 4))})
        steps.append(ops)
    return {"part": "B", "units": draw(st.sampled_from(UNITS)), "dhi": draw(sym(0.05, 0.6)), "grid": g,
            "wells": wells, "steps": steps}


# ------------------------------------------------------------------------------------------------- part B model
def opt(v):
    return "1*" if v is None else str(v)


def b_plan(M, case):
    """deck text of the history + the connection-list model after every report step"""
    wells = case["wells"]
    lines = ["WELSPECS"]
    for W in wells:
        lines.append(" '%s' 'G' %d %d 1* OIL /" % (W["name"], W["head"][0] + 1, W["head"][1] + 1))
    lines.append("/")
    if any(W["order"] for W in wells):
        lines.append("COMPORD")
        for W in wells:
            if W["order"]:
                lines.append(" '%s' %s /" % (W["name"], W["order"]))
        lines.append("/")
    model = [[] for _ in wells]            # per well: list of connection dicts in insertion order
    snaps = []
    f = M.f
    for ops in case["steps"]:
        glob = {}
        touched = [set() for _ in wells]
        inserted = [False for _ in wells]
        for op in ops:
            w = op["well"]
            name = wells[w]["name"]
            conns = model[w]
            if op["op"] == "compdat":
                i, j = op["i"], op["j"]
                cells = [(i, j, k) for k in range(op["k1"], op["k2"] + 1) if M.active(i, j, k)]
                if op["dia"] is None:
                    rw, dia_tok = 0.5 * R.FOOT, "1*"
                else:
                    q = Q(0.05 + op["dia"] * (2 * M.rmax - 0.05) if 2 * M.rmax > 0.05 else 0.05, f["L"])
                    rw, dia_tok = q.si / 2.0, q.text
                info = [M.cell(a, b, k, op["dir"]) for (a, b, k) in cells]
                umin = min([math.log(c["r0"] / rw) for c in info] or [1.0])
                S = 0.0 if op["skin"] is None else skin_value(op["skin"], umin)
                skin_tok = "1*" if op["skin"] is None else num(S)
                S = 0.0 if op["skin"] is None else float(skin_tok)
                cf_tok, CFin = "1*", None
                if op["cf"] == "free":
                    ref = info[0]["kh"] * TWO_PI / (math.log(info[0]["r0"] / rw) + S) if info else 1e-12
                    q = Q(ref * 10.0 ** op["m_cf"], f["T"])
                    cf_tok, CFin = q.text, q.si
                ij = ("%d %d" % (i + 1, j + 1)) if op["ijdef"] is None else ("%s %s" % (op["ijdef"], op["ijdef"]))
                lines += ["COMPDAT", " '%s' %s %d %d %s 1* %s %s 1* %s 1* %s 1* /" % (
                    name, ij, op["k1"] + 1, op["k2"] + 1, op["state"], cf_tok, dia_tok, skin_tok, op["dir"]), "/"]
                for (a, b, k), c in zip(cells, info):
                    L = math.log(c["r0"] / rw)
                    d = L + S
                    dden = c["tol_r0"] + EPS0 + EPS0 * (abs(L) + abs(S))
                    if CFin is None:
                        vals = {"Kh": c["kh"], "tol_Kh": c["tol_kh"], "CF": TWO_PI * c["kh"] / d,
                                "tol_CF": c["tol_kh"] + EPS0 + dden / d}
                    else:
                        vals = {"CF": CFin, "tol_CF": EPS0, "Kh": CFin * d / TWO_PI, "tol_Kh": 2 * EPS0 + dden / d}
                    vals.update({"r0": c["r0"], "tol_r0": c["tol_r0"], "rw": rw, "skin": S,
                                 "state": op["state"], "dir": op["dir"], "nmult": 0})
                    old = next((x for x in conns if x["ijk"] == (a, b, k)), None)
                    if old is None:
                        vals.update({"ijk": (a, b, k), "complnum": len(conns) + 1, "sort": len(conns)})
                        conns.append(vals)
                        inserted[w] = True
                    else:
                        # re-entered: the connection is replaced in place; it keeps its place and completion number
                        vals.update({"ijk": old["ijk"], "complnum": old["complnum"], "sort": old["sort"]})
                        conns[conns.index(old)] = vals
                    touched[w].add((a, b, k))
                continue

            def match(c):
                for key, a in (("i", 0), ("j", 1), ("k", 2)):
                    if op.get(key) is not None and op[key] != c["ijk"][a]:
                        return False
                if op.get("c1") is not None and c["complnum"] < op["c1"]:
                    return False
                if op.get("c2") is not None and c["complnum"] > op["c2"]:
                    return False
                return True

            ijk_toks = " ".join("1*" if op.get(key) is None else str(op[key] + 1) for key in ("i", "j", "k"))
            if op["op"] == "wpimult":
                q = num(op["f"])
                lines += ["WPIMULT", " '%s' %s %s %s %s /" % (name, q, ijk_toks, opt(op["c1"]), opt(op["c2"])), "/"]
                fac = float(q)
                if all(op[key] is None for key in ("i", "j", "k", "c1", "c2")):
                    glob[w] = fac          # whole-well multiplier: the last one of the report step counts
                else:
                    for c in conns:
                        if match(c):
                            c["CF"] *= fac
                            c["nmult"] += 1
                            touched[w].add(c["ijk"])
            elif op["op"] == "welopen":
                lines += ["WELOPEN", " '%s' %s %s %s %s /" % (name, op["status"], ijk_toks, opt(op["c1"]),
                                                           opt(op["c2"])), "/"]
                for c in conns:
                    if match(c):
                        c["state"] = op["status"]
                        touched[w].add(c["ijk"])
            elif op["op"] == "complump":
                lines += ["COMPLUMP", " '%s' %s %s %s %s %d /" % (name, opt(op["i"]), opt(op["j"]), opt(op["k1"]),
                                                               opt(op["k2"]), op["n"]), "/"]
                for c in conns:
                    a, b, k = c["ijk"]
                    if op["i"] not in (None, 0) and op["i"] - 1 != a:
                        continue
                    if op["j"] not in (None, 0) and op["j"] - 1 != b:
                        continue
                    if op["k1"] not in (None, 0) and k < op["k1"] - 1:
                        continue
                    if op["k2"] not in (None, 0) and k > op["k2"] - 1:
                        continue
                    c["complnum"] = op["n"]
                    touched[w].add(c["ijk"])
        for w, fac in glob.items():
            for c in model[w]:
                c["CF"] *= fac
                c["nmult"] += 1
                touched[w].add(c["ijk"])
        snaps.append({"conns": [[dict(c) for c in conns] for conns in model],
                      "touched": touched, "inserted": inserted})
        lines += ["TSTEP", " 1 /"]
    return lines, snaps


def b_features(case):
    """structural class of a history (no numerics)"""
    nconn = [set() for _ in case["wells"]]
    feats = set()
    rew = [False] * len(case["wells"])
    tw = [False] * len(case["wells"])
    g = case["grid"]
    for ops in case["steps"]:
        nglob = {}
        for op in ops:
            w = op["well"]
            if op["op"] == "compdat":
                new = False
                re_ = False
                for k in range(op["k1"], op["k2"] + 1):
                    idx = op["i"] + g["nx"] * (op["j"] + g["ny"] * k)
                    if g["actnum"] is not None and g["actnum"][idx] == 0:
                        feats.add("compdat-inactive-cell")
                        continue
                    if (op["i"], op["j"], k) in nconn[w]:
                        re_ = True
                    else:
                        nconn[w].add((op["i"], op["j"], k))
                        new = True
                if re_:
                    rew[w] = True
                    feats.add("compdat-reentered")
                if new:
                    feats.add("compdat-new")
                if op["k2"] > op["k1"]:
                    feats.add("compdat-krange")
                if op["cf"] == "free":
                    feats.add("compdat-explicit-cf")
            elif op["op"] == "wpimult":
                if all(op[key] is None for key in ("i", "j", "k", "c1", "c2")):
                    nglob[w] = nglob.get(w, 0) + 1
                    feats.add("wpimult-well")
                else:
                    feats.add("wpimult-targeted")
                    if op["c1"] is not None or op["c2"] is not None:
                        feats.add("wpimult-complnum-range")
                    if len(nconn[w]) >= 3:
                        tw[w] = True
            else:
                feats.add(op["op"])
        if any(v > 1 for v in nglob.values()):
            feats.add("wpimult-well-several-per-step")
    nontriv = any(rew[w] and tw[w] and len(nconn[w]) >= 3 for w in range(len(case["wells"])))
    return nontriv, feats


# ----------------------------------------------------------------------------------------------------- the check
COMBOS16 = [(cf, kh, dia, r0) for cf in (0, 1) for kh in (0, 1) for dia in (0, 1) for r0 in (0, 1)]


class C06(Check):
    ID = "C06"
    PROBE_GROUP = "conn"
    RULE = ("Part A: tensor grids (1-2 x 1-2 x 1-3 cells; part B up to 3 x 3 x 5 with ACTNUM holes; DXV/DYV/DZV in [max(1 m, 6 rw), 500 m], PERMX/Y/Z log-uniform "
            "over 6 decades and independent per cell, NTG per cell or absent, TOPS 0-3000 m) in one of the four unit "
            "systems; 1-6 wells with one COMPDAT record each: direction X/Y/Z, diameter defaulted or 0.05-0.6 m, skin "
            "defaulted or drawn given ln(r0/rw) in [-3, 20], CF in {defaulted, 0, computed value, free}, Kh in "
            "{defaulted, negative, 0, computed value, free}, r0 in {defaulted, computed value, free}; free values keep "
            "the triple consistent (at most two free, the third solves the relation).  Enumerated: all 16 "
            "default/explicit combinations x 3 directions on fixed geometries x 4 unit systems.  Part B: 1-2 wells "
            "(COMPORD INPUT/TRACK/DEPTH/none, single-column or free), 2-5 report steps of COMPDAT (new cells, K "
            "ranges, re-entered cells, inactive cells), WPIMULT (by I/J/K, completion range, whole well), WELOPEN on "
            "connections, COMPLUMP.  Non-trivial: A = some record with K1/K2 outside [0.5,2] and D1 != D2 in "
            "direction X or Y, or a free explicit value; B = a well with >= 3 connections that sees a re-entered "
            "COMPDAT and a targeted WPIMULT.  Distinct by unit system + per-record (class, modes, direction, "
            "anisotropy, sign of skin) / by the sequence of operation kinds and targets.")
    ASSUMPTIONS = [
        "domain of the relation: rw < r0 and ln(r0/rw)+S >= 0.05 (cells are drawn given rw, skin given ln(r0/rw))",
        "explicit CF/Kh/r0 are mutually consistent (the third explicit value solves the relation)",
        "Kh = 0 with explicit CF means 'Kh from the cell, r0 solves the relation'; Kh defaulted or negative with "
        "explicit CF means 'Kh solves the relation' (COMPDAT item 10 convention as stated in the code comments)",
        "several whole-well WPIMULT records in one report step: the last one counts and is applied at the end of "
        "the step (convention stated in the handler's comment)",
        "order of the list is asserted completely for COMPORD INPUT (input order) and for single-column wells "
        "(top-down); for other TRACK wells only 'unchanged when no new cell was connected'",
        "re, connection length, D-factor, CTF kind are not asserted",
    ]
    EXAMPLES = {"quick": 330, "thorough": 4000}
    MIN_EVALS = {"quick": 1500, "thorough": 10000}
    TIME_CAP = {"quick": 150, "thorough": 800}
    EXHAUSTIVE = False
    LEVEL_TEXT = ("Generated-input search against two independent Python models: the Peaceman relation/defaults "
                  "computed from the deck's own numbers with my unit table (per record, all 16 default/explicit "
                  "combinations x 3 directions x 4 unit systems enumerated on fixed geometries, the rest sampled), "
                  "and an ordered connection-list model run over COMPDAT/WPIMULT/WELOPEN/COMPLUMP histories and "
                  "compared after every report step; untouched connections are compared bit for bit with the "
                  "previous step.")
    LEVEL_NOTE = ("Sampled, not exhaustive.  Trusted: my reading of Peaceman's formula and of the COMPDAT item 8/10/14 "
                  "conventions; tolerances are derived per record from the conditioning of ln(r0/rw)+S and from the "
                  "cancellation noise of cell extents (a few ulp of the largest corner coordinate).")
    TECHNIQUE = "property-based testing: Hypothesis generators + enumerated combination product, reference model + stateful list model"

    # ------------------------------------------------------------------ generation
    def strategy(self, tier):
        return st.integers(0, 9).flatmap(lambda t: case_a() if t < 7 else case_b())

    def enumerate(self, tier):
        ngeo = 2 if tier == "quick" else 40
        x = 12345

        def nxt():
            nonlocal x
            x = (x * 6364136223846793005 + 1442695040888963407) % 2 ** 64
            return (x >> 11) / float(2 ** 53)

        for gi in range(ngeo):
            g = {"nx": 1, "ny": 1, "nz": 1, "dxv": [nxt() ** 2], "dyv": [nxt() ** 2], "dzv": [nxt() ** 2],
                 "tops": 3000.0 * nxt(), "permx": [-2 + 6 * nxt()], "permy": [-2 + 6 * nxt()],
                 "permz": [-2 + 6 * nxt()], "poro": [0.2], "ntg": [nxt()], "actnum": None}
            dhi = 0.05 + 0.55 * nxt()
            base = [{"dia": nxt(), "skin": nxt(), "m_kh": -2 + 4 * nxt(), "m_cf": -2 + 4 * nxt(), "u": nxt()}
                    for _ in range(48)]
            expl = "ref" if gi % 2 == 0 else "free"
            recs = []
            n = 0
            for d in DIRS:
                for (cf, kh, dia, r0) in COMBOS16:
                    b = base[n]
                    n += 1
                    recs.append({"well": "W%d" % n, "cell": [0, 0, 0], "dir": d,
                                 "dia": b["dia"] if dia else None, "skin": b["skin"] if n % 3 else None,
                                 "cf": expl if cf else "def", "kh": expl if kh else "def",
                                 "r0": expl if r0 else "def", "m_kh": b["m_kh"], "m_cf": b["m_cf"], "u": b["u"],
                                 "state": "OPEN"})
            for units in UNITS:
                yield {"part": "A", "units": units, "dhi": dhi, "grid": g, "records": recs, "enum": True}

    # --------------------------------------------------------------- classification
    def classify(self, case):
        if case["part"] == "A":
            M = Model(case)
            labels = ["part:A", "units:" + case["units"]]
            sig = []
            nontriv = False
            for rec in case["records"]:
                p = plan_record(M, rec)
                e = p["eff"]
                labels.append("A:class-" + p["cls"])
                labels.append("A:combo cf=%s kh=%s dia=%s r0=%s" % (
                    "E" if e["cf"] in ("ref", "free") else "D", "E" if e["kh"] in ("ref", "free") else "D",
                    "E" if e["dia"] == "exp" else "D", "E" if e["r0"] in ("ref", "free") else "D"))
                labels.append("A:dir-" + p["dir"])
                for n_ in ("cf", "kh", "r0"):
                    labels.append("A:%s=%s" % (n_, e[n_]))
                if p["neg_skin"]:
                    labels.append("A:skin<0")
                if p["den"] < 0.2:
                    labels.append("A:denominator<0.2")
                an = p["aniso"] and p["dir"] in ("X", "Y")
                if an:
                    labels.append("A:aniso-XY")
                if p["free"]:
                    labels.append("A:free-explicit")
                if p["twin"]:
                    labels.append("A:twin(explicit=computed vs all-default)")
                if an or p["free"]:
                    nontriv = True
                sig.append((p["cls"], e["cf"], e["kh"], e["r0"], e["dia"], p["dir"], p["aniso"], p["neg_skin"]))
            if case.get("enum"):
                labels.append("A:enumerated-16x3")
            return nontriv, sha([case["units"], sorted(map(str, sig)), case["grid"]["ntg"] is None], 16), labels
        nontriv, feats = b_features(case)
        labels = ["part:B", "units:" + case["units"]] + ["B:" + f for f in sorted(feats)]
        for W in case["wells"]:
            labels.append("B:order-%s-%s" % (W["order"] or "default", "column" if W["column"] else "free"))
        if nontriv:
            labels.append("B:nontrivial(reenter+targeted-wpimult,>=3conns)")
        sig = [[(op["op"], op["well"], op.get("i"), op.get("j"), op.get("k", op.get("k1")), op.get("c1"), op.get("c2"))
                for op in ops] for ops in case["steps"]]
        return nontriv, sha([[W["order"], W["column"]] for W in case["wells"]] + sig, 16), labels

    def floors(self, tier):
        return {"A:aniso-XY": 0.15, "A:free-explicit": 0.2, "A:skin<0": 0.1, "part:B": 0.15,
                "B:nontrivial(reenter+targeted-wpimult,>=3conns)": 0.01, "B:compdat-reentered": 0.04,
                "B:wpimult-targeted": 0.04, "B:wpimult-well": 0.02, "B:welopen": 0.02, "B:complump": 0.02}

    def sample_view(self, case):
        if case["part"] == "A":
            M = Model(case)
            return {"part": "A", "units": case["units"], "dims": [case["grid"][k] for k in ("nx", "ny", "nz")],
                    "records": [plan_record(M, r)["record"] for r in case["records"][:6]]}
        M = Model(case)
        lines, _ = b_plan(M, case)
        return {"part": "B", "units": case["units"], "schedule": lines[:60]}

    # --------------------------------------------------------------------- oracle
    def check(self, case, ctx):
        M = Model(case)
        if case["part"] == "A":
            return self.check_a(case, ctx, M)
        return self.check_b(case, ctx, M)

    @staticmethod
    def pick(viols):
        """first violation that is not the known one, else the known one"""
        for v in viols:
            if v.get("key") is None:
                return v
        return viols[0] if viols else None

    def check_a(self, case, ctx, M):
        plans = [plan_record(M, r) for r in case["records"]]
        lines = M.grid_text()
        lines.append("WELSPECS")
        names = []
        for rec, p in zip(case["records"], plans):
            i, j, _ = rec["cell"]
            lines.append(" '%s' 'G' %d %d 1* OIL /" % (rec["well"], i + 1, j + 1))
            names.append(rec["well"])
            if p["twin"]:
                lines.append(" '%sT' 'G' %d %d 1* OIL /" % (rec["well"], i + 1, j + 1))
                names.append(rec["well"] + "T")
        lines += ["/", "COMPDAT"]
        for p in plans:
            lines.append(" " + p["record"])
            if p["twin"]:
                lines.append(" " + p["twin"])
        lines += ["/", "TSTEP", " 1 /"]
        deck = "\n".join(lines) + "\n"
        r = ctx.P.call("conn_sched", deck=deck, wells=names)
        viols = []

        def V(rule, detail, key=None):
            viols.append({"rule": rule, "detail": detail, "key": key})

        for rec, p in zip(case["records"], plans):
            w = r["wells"][rec["well"]]
            for step, obs in enumerate(w):
                if obs is None or len(obs["conns"]) != 1:
                    V("A: one COMPDAT record on one cell must give exactly one connection",
                      {"record": p["record"], "step": step, "obs": obs})
                    break
            else:
                c = w[0]["conns"][0]
                if w[-1]["conns"][0] != c:
                    V("A: connection differs between report steps without any keyword", {"record": p["record"]})
                e = p["exp"]
                v = conn_vals(c)
                ctxd = {"record": p["record"], "units": case["units"], "class": p["cls"], "stored": v}
                if c["ijk"] != rec["cell"] or c["dir"] != rec["dir"] or c["state"] != rec["state"] or \
                        c["complnum"] != 1 or c["sort"] != 0:
                    V("A: cell / direction / state / completion number of the stored connection", dict(ctxd, conn=c))
                if rel(v["rw"], e["rw"]) > e["tol_rw"]:
                    V("A: stored rw is not half the diameter (default: one foot)", dict(ctxd, want=e["rw"]))
                if abs(v["skin"] - e["skin"]) > EPS0 * abs(e["skin"]):
                    V("A: stored skin does not echo the input", dict(ctxd, want=e["skin"]))
                # (1) the relation on the stored numbers
                if not (v["r0"] > 0 and v["rw"] > 0):
                    V("A: stored radii not positive", ctxd)
                    continue
                res, bound, L, den = identity_residual(v)
                if not res <= bound:
                    key = None
                    # stored r0 back-computed from CF and Kh: a residual of exactly the size of (pi - 3.14159265)/pi is
                    # the known finding; everything else stays a plain violation
                    if e["derived_r0"] and res <= 1.2e-9 + bound:
                        key = KNOWN_PI
                    V("A: CF (ln(r0/rw) + S) = 2 pi Kh violated by the stored numbers",
                      dict(ctxd, residual=res, bound=bound, ln_r0_rw=L, denominator=den), key)
                # (2) every quantity against the reference
                for name in ("CF", "Kh", "r0"):
                    d = rel(v[name], e[name])
                    tol = e["tol_" + name]
                    if not d <= tol:
                        key = None
                        if name == "r0" and e["derived_r0"] and d <= tol + 1.2e-9 * abs(e["A"]):
                            key = KNOWN_PI
                        V("A: stored %s differs from the Peaceman reference" % name,
                          dict(ctxd, want=e[name], got=v[name], rel=d, tol=tol, modes=p["eff"]), key)
                # (3) explicit == computed changes nothing
                if p["twin"]:
                    tw = r["wells"][rec["well"] + "T"]
                    if tw[0] is None or len(tw[0]["conns"]) != 1:
                        V("A: twin record gives no connection", {"record": p["twin"]})
                    else:
                        t = conn_vals(tw[0]["conns"][0])
                        for name in ("CF", "Kh", "r0", "rw", "skin"):
                            d = rel(v[name], t[name])
                            tol = 2 * e.get("tol_" + name, EPS0) + 2 * EPS0
                            # the twin's own values carry the cell tolerances
                            tol += 2 * (p["cell"]["tol_r0"] + p["cell"]["tol_kh"]) * (1 + 1 / max(den, DEN_MIN)) \
                                if name in ("CF", "Kh", "r0") else 0.0
                            if not d <= tol:
                                key = None
                                if name == "r0" and e["derived_r0"] and d <= tol + 1.2e-9 * abs(e["A"]):
                                    key = KNOWN_PI
                                V("A: entering the computed value explicitly changes the stored %s" % name,
                                  dict(ctxd, twin=t, rel=d, tol=tol, twin_record=p["twin"]), key)
        if any(v.get("key") == KNOWN_PI for v in viols):
            ctx.label("A:known r0/truncated-pi residual observed")
        return self.pick(viols)

    def check_b(self, case, ctx, M):
        lines, snaps = b_plan(M, case)
        deck = "\n".join(M.grid_text() + lines) + "\n"
        names = [W["name"] for W in case["wells"]]
        r = ctx.P.call("conn_sched", deck=deck, wells=names)
        viols = []

        def V(rule, detail, key=None):
            viols.append({"rule": rule, "detail": detail, "key": key})

        KEYS = ("ijk", "state", "dir", "complnum", "sort", "CF", "Kh", "rw", "r0", "skin")
        for w, W in enumerate(case["wells"]):
            obs_w = r["wells"][W["name"]]
            prev = None
            for s, snap in enumerate(snaps):
                obs = obs_w[s]
                want = snap["conns"][w]
                where = {"well": W["name"], "step": s, "order": W["order"], "schedule": lines}
                if obs is None:
                    V("B: well missing at report step", where)
                    break
                exp_order = W["order"] or "TRACK"
                if obs["order"] != exp_order:
                    V("B: COMPORD ordering not stored", dict(where, got=obs["order"]))
                got = obs["conns"]
                gmap = {tuple(c["ijk"]): c for c in got}
                if len(gmap) != len(got) or set(gmap) != set(c["ijk"] for c in want):
                    V("B: set of connected cells differs from the model",
                      dict(where, got=[c["ijk"] for c in got], want=[list(c["ijk"]) for c in want]))
                    break
                # order
                seq = [tuple(c["ijk"]) for c in got]
                if exp_order == "INPUT":
                    if seq != [c["ijk"] for c in want]:
                        V("B: COMPORD INPUT: connections not in input order", dict(where, got=seq,
                                                                                want=[c["ijk"] for c in want]))
                elif W["column"]:
                    if seq != sorted(seq, key=lambda t: t[2]):
                        V("B: single-column well: connections not ordered top-down", dict(where, got=seq))
                if prev is not None and not snap["inserted"][w]:
                    if seq != [tuple(c["ijk"]) for c in prev]:
                        V("B: order of the connections changed in a step that connected no new cell",
                          dict(where, got=seq, before=[c["ijk"] for c in prev]))
                pmap = {tuple(c["ijk"]): c for c in prev} if prev is not None else {}
                for m in want:
                    c = gmap[m["ijk"]]
                    v = conn_vals(c)
                    info = dict(where, ijk=m["ijk"], stored=v, conn={k: c[k] for k in ("state", "dir", "complnum", "sort")})
                    if m["ijk"] not in snap["touched"][w] and m["ijk"] in pmap:
                        # untouched this step: identical to the previous report step, bit for bit
                        p = pmap[m["ijk"]]
                        diff = [k for k in KEYS if p[k] != c[k]]
                        if diff:
                            V("B: a connection not addressed in this report step changed (%s)" % ",".join(diff),
                              dict(info, before={k: p[k] for k in diff}, after={k: c[k] for k in diff}))
                        continue
                    if c["complnum"] != m["complnum"]:
                        V("B: completion number", dict(info, want=m["complnum"]))
                    if c["sort"] != m["sort"]:
                        V("B: sort value (input sequence index) of a connection", dict(info, want=m["sort"]))
                    if c["state"] != m["state"]:
                        V("B: connection state", dict(info, want=m["state"]))
                    if c["dir"] != m["dir"]:
                        V("B: connection direction", dict(info, want=m["dir"]))
                    for name in ("CF", "Kh", "r0", "rw", "skin"):
                        tol = m.get("tol_" + name, EPS0)
                        if name == "CF":
                            tol += 2 * ULP * m["nmult"]
                        if name == "skin":
                            ok = abs(v[name] - m[name]) <= EPS0 * abs(m[name])
                        else:
                            ok = rel(v[name], m[name]) <= tol
                        if not ok:
                            V("B: stored %s differs from the model (COMPDAT value x WPIMULT factors)" % name,
                              dict(info, want=m[name], got=v[name], tol=tol, nmult=m["nmult"]))
                prev = got
            # trailing report steps (after the last TSTEP) must equal the last one
            if obs_w and len(obs_w) > len(snaps) and prev is not None:
                for extra in obs_w[len(snaps):]:
                    if extra is None or extra["conns"] != prev:
                        V("B: connections change after the last keyword", {"well": W["name"]})
        return self.pick(viols)
