"""C10 - every summary value written can be read back at its vector and ministep.

Two writers: (W1) the library (out::Summary eval/add_timestep/write driven by a generated deck), (W2) an
independent Python encoder of SMSPEC/UNSMRY/Snnnn (+ formatted twins, + ESMRY) built on vlib/eclcodec.py.
Readers: ESmry (loadData() and loadData(vectList)/get = per-element seek), ESmry::make_esmry_file + ExtESmry,
ExtESmry on ESMRY files written by out::Summary / by W2; plus the reference decoder on W1's files.
"""
import os
import shutil
import struct

from hypothesis import strategies as st

from vlib import build
from vlib import eclcodec as EC
from vlib.runner import Check, Discard, sha, load_known
from vlib.probe import LibError, ProbeCrash, hexf

NO_WG = ":+:+:+:+"
GRIDS = [(17, 17, 17), (20, 25, 10), (7, 31, 23), (50, 10, 10), (10, 10, 50)]   # all >= 4913 cells, >= 100 columns
SMALL_GRIDS = [(3, 4, 5), (5, 1, 7), (2, 2, 2)]
MONTHS = ["JAN", "FEB", "MAR", "APR", "MAY", "JUN", "JUL", "AUG", "SEP", "OCT", "NOV", "DEC"]

# ------------------------------------------------------------------ small deterministic helpers


def lcg(seed):
    """deterministic stream of 31-bit integers (expands a Hypothesis-drawn seed; no `random`)"""
    x = (seed * 2862933555777941757 + 3037000493) & (2 ** 64 - 1)
    while True:
        x = (x * 6364136223846793005 + 1442695040888963407) & (2 ** 64 - 1)
        yield x >> 33


def shuffled(items, seed):
    items = list(items)
    g = lcg(seed)
    for i in range(len(items) - 1, 0, -1):
        j = next(g) % (i + 1)
        items[i], items[j] = items[j], items[i]
    return items


def f32bits(x):
    """round a Python float (double) to the nearest float32, as bits"""
    return struct.unpack(">I", struct.pack(">f", x))[0]


# ------------------------------------------------------------------ key model
# Written from the documented SMSPEC -> key table (comment at the top of ESmry.cpp / ExtESmry.cpp, "ERT keys"):
#   W*  KW:WELL            G*  KW:GROUP          F*/misc  KW
#   B*  KW:i,j,k           C*  KW:WELL:i,j,k     R*  KW:NUM     inter-region R?F[RT]*: KW:R1-R2, NUMS = R1 + 32768*(R2+10)
#   A*  KW:NUM             S*  KW:WELL:NUM       well-completion W???L: KW:WELL:NUM
INTERREG = {"ROFT", "RGFT", "RWFT", "ROFR", "RGFR", "RWFR", "ROFTL", "ROFTG", "RGFTL", "RGFTG"}
WELL_COMPL = {"WOPRL", "WWPRL", "WGPRL", "WOPTL", "WWPTL"}
MISC_S = {"STEPTYPE", "SEPARATE", "SUMTHIN"}


def ijk(num, grid):
    g = num - 1
    return (g % grid[0] + 1, (g // grid[0]) % grid[1] + 1, g // (grid[0] * grid[1]) + 1)


def make_key(kw, wg, num, grid):
    c = kw[0]
    if kw in MISC_S:
        return kw
    if c == "W":
        return "%s:%s:%d" % (kw, wg, num) if kw in WELL_COMPL else "%s:%s" % (kw, wg)
    if c == "G":
        return "%s:%s" % (kw, wg)
    if c == "B":
        return "%s:%d,%d,%d" % ((kw,) + ijk(num, grid))
    if c == "C":
        return "%s:%s:%d,%d,%d" % ((kw, wg) + ijk(num, grid))
    if c == "R":
        if kw in INTERREG:
            return "%s:%d-%d" % (kw, num % 32768, num // 32768 - 10)
        return "%s:%d" % (kw, num)
    if c == "A":
        return "%s:%d" % (kw, num)
    if c == "S":
        return "%s:%s:%d" % (kw, wg, num)
    return kw


def st_key(kw, wg, num):
    """SummaryState key of a vector (keyword[:name][:number]), used to observe what the writer was given"""
    c = kw[0]
    if kw in MISC_S:
        return kw
    if c in "WG":
        return "%s:%s" % (kw, wg)
    if c in "BRA":
        return "%s:%d" % (kw, num)
    if c in "CS":
        return "%s:%s:%d" % (kw, wg, num)
    return kw


UNIT_OF = {"P": "BARSA", "R": "SM3/DAY", "T": "SM3", "S": "", "K": ""}


def unit_for(kw):
    if kw == "TIME":
        return "DAYS"
    if kw.endswith("PR") and kw[0] in "BR" or kw in ("WBHP", "WTHP", "FPR", "SPR", "CPR", "AAQP", "BPRESSUR"):
        return "BARSA"
    if kw.endswith("R") or kw.endswith("RL"):
        return "SM3/DAY"
    if kw.endswith("T") or kw.endswith("TL") or kw.endswith("IP"):
        return "SM3"
    if kw in ("TCPU", "ELAPSED"):
        return "SECONDS"
    return ""


# ------------------------------------------------------------------ vector lists


def py_vectors(n, vseed, style, grid):
    """n vectors (dicts kw, wg, num, unit), TIME first, all keys distinct"""
    ncell = grid[0] * grid[1] * grid[2]
    g = lcg(vseed)
    cells = shuffled(range(1, ncell + 1), vseed + 1)
    univ = []
    if style == "block":
        for kw in ("BPR", "BSWAT", "BSGAS"):
            for c in cells:
                univ.append((kw, NO_WG, c))
            if len(univ) >= n:
                break
    elif style == "well":
        wells = ["W%d" % i for i in range(1, 700)]
        wells = shuffled(wells, vseed + 2)
        kws = shuffled(["WOPR", "WWPR", "WGPR", "WOPT", "WWPT", "WGPT", "WWCT", "WGOR", "WBHP", "WTHP", "WWIR", "WGIR", "WLPR"],
                       vseed + 3)
        nw = max(1, -(-n // len(kws)))
        for w in wells[:nw]:
            for kw in kws:
                univ.append((kw, w, 0))
        univ = shuffled(univ, vseed + 4) if next(g) % 2 else univ
    else:
        nw = 1 + next(g) % 40
        wells = ["PROD%d" % i if i % 3 else "I-%d" % i for i in range(1, nw + 1)]
        groups = ["G%d" % i for i in range(1, 2 + next(g) % 6)]
        nreg = 2 + next(g) % 60
        cats = []
        cats.append([(kw, NO_WG, 0) for kw in ("FOPR", "FWPR", "FGPR", "FOPT", "FWPT", "FGPT", "FWCT", "FGOR", "FPR", "FOIP",
                                               "YEARS", "TCPU", "ELAPSED", "NEWTON", "MLINEARS", "MSUMLINS", "MSUMNEWT",
                                               "TIMESTEP", "STEPTYPE", "DAY", "MONTH", "YEAR")])
        cats.append([(kw, w, 0) for w in wells for kw in ("WOPR", "WWPR", "WGPR", "WOPT", "WWCT", "WBHP", "WTHP")])
        cats.append([(kw, w, 1 + (i * 7 + k) % 40) for i, w in enumerate(wells) for k, kw in enumerate(("WOPRL", "WWPRL"))])
        cats.append([(kw, gr, 0) for gr in groups for kw in ("GOPR", "GWPR", "GGPR", "GOPT", "GWCT", "GPR")])
        cats.append([(kw, NO_WG, c) for c in cells[:1500] for kw in ("BPR", "BSWAT", "BOSAT", "BPRESSUR")])
        cats.append([(kw, wells[i % nw], c) for i, c in enumerate(cells[:900]) for kw in ("COFR", "CWFR", "CPR", "COPRL")])
        cats.append([(kw, NO_WG, r) for r in range(1, nreg + 1) for kw in ("RPR", "ROIP", "RWIP", "ROPT", "RORFR", "RPR__NUM")])
        pairs = [(r1, r2) for r1 in range(1, min(nreg, 25) + 1) for r2 in range(1, min(nreg, 25) + 1) if r1 != r2]
        pairs += [(32767, 1), (1, 32767), (999, 998), (100, 21474)]
        cats.append([(kw, NO_WG, r1 + 32768 * (r2 + 10)) for (r1, r2) in pairs
                     for kw in ("ROFT", "RGFT", "RWFR", "ROFR", "ROFTL", "RGFTG")])
        cats.append([(kw, NO_WG, a) for a in range(1, 12) for kw in ("AAQR", "AAQT", "AAQP")])
        cats.append([(kw, w, s) for w in wells[:10] for s in range(1, 9) for kw in ("SOFR", "SWFR", "SPR")])
        cats = [shuffled(c, vseed + 10 + i) for i, c in enumerate(cats)]
        # round robin with random weights, so that every category appears also for small n
        order = shuffled(range(len(cats)), vseed + 5)
        pos = [0] * len(cats)
        while len(univ) < n and any(pos[i] < len(cats[i]) for i in order):
            for i in order:
                k = 1 + next(g) % 4
                univ.extend(cats[i][pos[i]:pos[i] + k])
                pos[i] += k
    vecs = [{"kw": "TIME", "wg": NO_WG, "num": 0, "unit": "DAYS"}]
    for (kw, wg, num) in univ[:n - 1]:
        vecs.append({"kw": kw, "wg": wg, "num": num, "unit": unit_for(kw)})
    if len(vecs) != n:
        raise Discard()
    return vecs


LIB_MISC = ["TCPU", "ELAPSED", "NEWTON", "MLINEARS", "MSUMLINS", "MSUMNEWT", "NLINEARS", "STEPTYPE"]
LIB_WELL = ["WOPR", "WWPR", "WGPR", "WBHP", "WTHP", "WOPT", "WWPT", "WGPT", "WWCT", "WGOR"]
LIB_BLOCK = ["BPR", "BSWAT", "BSGAS", "BWKR", "BOKR", "BVWAT"]
LIB_FIELD = ["FOPR", "FWPR", "FGPR", "FOPT", "FWCT"]


def lib_request(nreq, vseed, style, grid):
    """what the deck's SUMMARY section asks for: nreq vectors (the library adds TIME and YEARS itself)"""
    ncell = grid[0] * grid[1] * grid[2]
    g = lcg(vseed)
    cells = shuffled(range(1, ncell + 1), vseed + 1)
    req = {"misc": [], "field": [], "wells": [], "wellkw": [], "nreg": 0, "regkw": [], "pairs": [], "pairkw": [],
           "blocks": []}
    left = nreq
    if style == "well":
        kws = shuffled(LIB_WELL, vseed + 3)
        nw = min(grid[0] * grid[1], left // len(kws))
        if nw:
            req["wells"] = ["W%d" % i for i in range(1, nw + 1)]
            req["wellkw"] = kws
            left -= nw * len(kws)
    elif style == "mixed":
        k = min(left, next(g) % 5)
        req["misc"] = shuffled(LIB_MISC, vseed + 6)[:k]
        left -= k
        nw = 1 + next(g) % 12
        kws = shuffled(LIB_WELL, vseed + 3)[:1 + next(g) % len(LIB_WELL)]
        if left >= nw * len(kws):
            req["wells"] = ["W%d" % i for i in range(1, nw + 1)]
            req["wellkw"] = kws
            left -= nw * len(kws)
            k = min(left, next(g) % 4)
            req["field"] = shuffled(LIB_FIELD, vseed + 7)[:k]
            left -= k
        nreg = 2 + next(g) % 30
        rk = shuffled(["RPR", "ROIP", "RWIP"], vseed + 8)[:1 + next(g) % 3]
        if left >= nreg * len(rk):
            req["nreg"] = nreg
            req["regkw"] = rk
            left -= nreg * len(rk)
            # inter-region flows between consecutive regions (they share a face by construction of FIPNUM below)
            pk = shuffled(["ROFT", "RGFT", "RWFR"], vseed + 9)[:1 + next(g) % 2]
            np_ = min(nreg - 1, left // len(pk), next(g) % 12)
            if np_ > 0:
                req["pairs"] = [(r, r + 1) for r in range(1, np_ + 1)]
                req["pairkw"] = pk
                left -= np_ * len(pk)
    bk = shuffled(LIB_BLOCK, vseed + 2)
    nb = 0
    while left > 0:
        take = min(left, ncell)
        req["blocks"].append((bk[nb % len(bk)], cells[:take]))
        left -= take
        nb += 1
        if nb > len(bk):
            raise Discard()
    return req


def lib_deck(case, run, req, grid, restart):
    nx, ny, nz = grid
    ncell = nx * ny * nz
    d, mo, y, h, mi, s = case["start"]
    L = []
    A = L.append
    A("RUNSPEC\nTITLE\n C10 generated\nDIMENS\n %d %d %d /\nOIL\nWATER\nGAS\n%s" % (nx, ny, nz, "FIELD" if case["field"] else "METRIC"))
    if h or mi or s:
        A("START\n %d '%s' %d %02d:%02d:%02d /" % (d, MONTHS[mo - 1], y, h, mi, s))
    else:
        A("START\n %d '%s' %d /" % (d, MONTHS[mo - 1], y))
    nw = len(req["wells"])
    A("WELLDIMS\n %d %d 2 %d /" % (max(nw, 1), 2, max(nw, 1)))
    A("REGDIMS\n %d /" % max(req["nreg"], 1))
    if case["fmt"]:
        A("FMTOUT")
    if case["unif"]:
        A("UNIFOUT")
    A("GRID")
    for kw, v in (("DX", 100), ("DY", 100), ("DZ", 5), ("PORO", 0.2), ("PERMX", 100), ("PERMY", 100), ("PERMZ", 10)):
        A("%s\n %d*%s /" % (kw, ncell, v))
    A("TOPS\n %d*2000 /" % (nx * ny))
    if req["nreg"]:
        A("REGIONS\nFIPNUM")
        # regions are consecutive runs of cells in natural order: r and r+1 always touch
        per = -(-ncell // req["nreg"])
        left = ncell
        r = 1
        row = []
        while left > 0:
            k = min(per, left)
            row.append("%d*%d" % (k, r))
            left -= k
            r += 1
        A(" " + " ".join(row) + " /")
    A("SOLUTION")
    if restart:
        A("RESTART\n '%s' %d /" % (restart[0], restart[1]))
    A("SUMMARY")
    for kw in req["misc"] + req["field"]:
        A(kw)
    for kw in req["wellkw"]:
        A(kw)
        ws = req["wells"]
        for i in range(0, len(ws), 8):
            A(" " + " ".join("'%s'" % w for w in ws[i:i + 8]))
        A("/")
    for kw in req["regkw"]:
        A(kw)
        rs = list(range(1, req["nreg"] + 1))
        for i in range(0, len(rs), 16):
            A(" " + " ".join(str(r) for r in rs[i:i + 16]))
        A("/")
    for kw in req["pairkw"]:
        A(kw)
        for (a, b) in req["pairs"]:
            A(" %d %d /" % (a, b))
        A("/")
    for kw, cells in req["blocks"]:
        A(kw)
        for c in cells:
            A(" %d %d %d /" % ijk(c, grid))
        A("/")
    A("SCHEDULE")
    if nw:
        A("WELSPECS")
        for i, w in enumerate(req["wells"]):
            A(" '%s' 'G%d' %d %d 1* 'OIL' /" % (w, i % 2 + 1, i % nx + 1, (i // nx) % ny + 1))
        A("/\nCOMPDAT")
        for i, w in enumerate(req["wells"]):
            A(" '%s' %d %d 1 1 'OPEN' 1* 1* 0.2 /" % (w, i % nx + 1, (i // nx) % ny + 1))
        A("/\nWCONPROD")
        for w in req["wells"]:
            A(" '%s' 'OPEN' 'ORAT' 100 4* 50 /" % w)
        A("/")
    nrep = run["first_rs"] - 1 + len(run["rsteps"])
    A("TSTEP\n %d*1 /" % (nrep + 1))
    return "\n".join(L) + "\n"


# ------------------------------------------------------------------ history model


def run_plan(run, t0_eighths, first_rs):
    """ministeps of one run: list of (report_step, is_last_in_report_step, time in 1/8 days)"""
    plan = []
    t = t0_eighths
    k = 0
    dts = run["dt8"]
    for i, cnt in enumerate(run["rsteps"]):
        for j in range(cnt):
            t += dts[k % len(dts)]
            k += 1
            plan.append((first_rs + i, j == cnt - 1, t))
    return plan


def py_value_bits(j, m, run_id, ext):
    """float32 bit pattern of vector j at ministep m: distinct for every (j, m), exact with 8 significant digits"""
    if ext and (j * 7 + m * 3) % 11 == 0:
        return ext[(j + m) % len(ext)]
    v = float((m + 1) * 8192 + j) * (0.125 if (j % 3 == 1) else 1.0)
    if j % 5 == 2:
        v = -v
    if run_id:
        v += 0.5
    return f32bits(v)


def close_real(want_bits, got_bits):
    """formatted REAL carries 8 significant digits (0.dddddddd E+xx): relative error of the text <= 5e-8, plus one
    float32 rounding (2^-24) when the text is converted back to float"""
    w = EC.f32(want_bits)
    g = EC.f32(got_bits)
    return abs(g - w) <= abs(w) * (5.0e-8 * (1 + 1e-9) + 2.0 ** -24) + 2.0 ** -149


# ------------------------------------------------------------------ W2: reference encoder of summary files


def chunk8(s, nwords):
    s = s.ljust(8 * nwords)
    return [s[i * 8:(i + 1) * 8].rstrip(" ") for i in range(nwords)]


def py_smspec(vecs, grid, start, restart, startdat3, unit_id):
    root = restart[0] if restart else ""
    nwords = 9 if len(root) <= 72 else 17
    d, mo, y, h, mi, s = start
    arrs = [
        {"name": "INTEHEAD", "type": "INTE", "data": [unit_id, 100]},
        {"name": "RESTART", "type": "CHAR", "data": chunk8(root, nwords)},
        {"name": "DIMENS", "type": "INTE", "data": [len(vecs), grid[0], grid[1], grid[2], 0, restart[1] if restart else -1]},
        {"name": "KEYWORDS", "type": "CHAR", "data": [v["kw"] for v in vecs]},
        {"name": "WGNAMES", "type": "CHAR", "data": [v["wg"] for v in vecs]},
        {"name": "NUMS", "type": "INTE", "data": [v["num"] for v in vecs]},
        {"name": "UNITS", "type": "CHAR", "data": [v["unit"] for v in vecs]},
        {"name": "STARTDAT", "type": "INTE", "data": [d, mo, y] if startdat3 else [d, mo, y, h, mi, s * 1000000]},
    ]
    return arrs


def write_arrays(path, arrs, fmt):
    with open(path, "wb") as f:
        f.write(EC.encode_formatted(arrs) if fmt else EC.encode_unformatted(arrs))


def py_write_run(dirp, base, fmt, unif, vecs, grid, start, restart, startdat3, unit_id, plan, ids, params):
    """params[m] = list of float32 bits"""
    write_arrays(os.path.join(dirp, base + (".FSMSPEC" if fmt else ".SMSPEC")),
                 py_smspec(vecs, grid, start, restart, startdat3, unit_id), fmt)
    files = {}
    order = []
    prev = None
    for m, (rs, last, t) in enumerate(plan):
        fn = base + ((".FUNSMRY" if fmt else ".UNSMRY") if unif else ((".A%04d" if fmt else ".S%04d") % rs))
        if fn not in files:
            files[fn] = []
            order.append(fn)
        if rs != prev:
            files[fn].append({"name": "SEQHDR", "type": "INTE", "data": [rs]})
            prev = rs
        files[fn].append({"name": "MINISTEP", "type": "INTE", "data": [ids[m]]})
        files[fn].append({"name": "PARAMS", "type": "REAL", "data": params[m]})
    for fn in order:
        write_arrays(os.path.join(dirp, fn), files[fn], fmt)


def py_write_esmry(dirp, base, keys, units, start, restart, rstep, tstep, series):
    d, mo, y, h, mi, s = start
    arrs = [{"name": "START", "type": "INTE", "data": [d, mo, y, h, mi, s, 0]}]
    if restart:
        arrs.append(str_array("RESTART", [restart[0]]))
        arrs.append({"name": "RSTNUM", "type": "INTE", "data": [restart[1]]})
    arrs.append(str_array("KEYCHECK", keys))
    arrs.append(str_array("UNITS", units))
    arrs.append({"name": "RSTEP", "type": "INTE", "data": rstep})
    arrs.append({"name": "TSTEP", "type": "INTE", "data": tstep})
    for i, k in enumerate(keys):
        arrs.append({"name": "V%d" % i, "type": "REAL", "data": series[i]})
    write_arrays(os.path.join(dirp, base + ".ESMRY"), arrs, False)


def str_array(name, data):
    w = max([len(s) for s in data] + [0])
    if w > 8:
        return {"name": name, "type": "C0NN", "elsize": w, "data": data}
    return {"name": name, "type": "CHAR", "data": data}


# ------------------------------------------------------------------ strategies

N_NEAR = [n for k in (1000, 2000, 3000, 4000) for n in range(k - 3, k + 4)] + [4498, 4499, 4500]


@st.composite
def run_strategy(draw, tier, small):
    big = tier == "thorough"
    if small:
        n = draw(st.integers(1, 40))
    else:
        n = draw(st.one_of(st.sampled_from(N_NEAR), st.integers(1, 12), st.integers(13, 1200),
                           st.integers(990, 1010), st.integers(1990, 2010), st.integers(2990, 3010),
                           st.integers(3990, 4010), st.integers(1, 4500)))
    maxsteps = 40 if n <= 300 else (16 if n <= 1500 else (10 if big else 6))
    nrs = draw(st.integers(1, 8))
    rsteps = draw(st.lists(st.integers(1, 6), min_size=nrs, max_size=nrs))
    # trim to the ministep budget
    tot = 0
    out = []
    for c in rsteps:
        c = min(c, maxsteps - tot)
        if c <= 0:
            break
        out.append(c)
        tot += c
    return {"n": n, "vseed": draw(st.integers(0, 10 ** 6)),
            "style": draw(st.sampled_from(["block", "well", "mixed", "mixed"])),
            "rsteps": out, "dt8": draw(st.lists(st.integers(1, 400), min_size=1, max_size=5)),
            "idgap": draw(st.sampled_from([0, 0, 0, 1])),
            "flush": draw(st.integers(0, 2 ** 16 - 1))}


@st.composite
def case_strategy(draw, tier):
    writer = draw(st.sampled_from(["py", "lib"]))
    has_base = draw(st.sampled_from([False, False, True]))
    run = draw(run_strategy(tier, False))
    case = {"writer": writer, "fmt": draw(st.booleans()), "unif": draw(st.booleans()),
            "grid": draw(st.integers(0, len(GRIDS) - 1)), "field": draw(st.booleans()),
            "start": [draw(st.integers(1, 28)), draw(st.integers(1, 12)), draw(st.integers(1970, 2035)),
                      draw(st.sampled_from([0, 0, 13, 23])), draw(st.sampled_from([0, 30, 59])),
                      draw(st.sampled_from([0, 1, 59]))],
            "run": run, "base": None,
            "esmry": draw(st.booleans()),          # lib: let out::Summary write the ESMRY; py: W2 writes the ESMRY
            "startdat3": draw(st.booleans()),
            "ext": draw(st.lists(st.sampled_from(EXT32), min_size=0, max_size=4)),
            "subset": draw(st.integers(0, 10 ** 6))}
    if has_base:
        b = draw(run_strategy(tier, False))
        samev = draw(st.sampled_from(["same", "same", "perm", "sub", "super"]))
        b_rs = b["rsteps"]
        case["base"] = {"run": b, "r": draw(st.integers(1, len(b_rs))), "vectors": samev,
                        "where": draw(st.sampled_from(["same", "sub", "abs", "abslong"]))}
        if samev == "same":
            case["run"]["n"] = b["n"]
    return case


EXT32 = [0x00000000, 0x80000000, 0x00800000, 0x7F7FFFFF, 0xFF7FFFFF, 0x3F800000, 0xBF800000, 0x501502F9, 0x0DA24260,
         0x3DCCCCCD, 0x4B7FFFFF, 0x3EAAAAAB]


class C10(Check):
    ID = "C10"
    deferred = []
    PROBE_GROUP = "smryio"
    # heap poisoning (harness/c10/heapfill.cpp, LD_PRELOAD): every malloc'ed block is filled with 0xA0 over its whole
    # usable size.  Reads of uninitialised heap bytes / short over-reads behind a buffer become deterministic, and
    # for text parsing harmless (0xA0 ends a number); read_digit_heap() repeats one read with the fill '0'.
    HEAPFILL = os.path.join(build.BUILD, "c10_heapfill.so")
    PROBE_ENV = {"LD_PRELOAD": HEAPFILL, "C10_HEAP_FILL": "160"}

    def prepare(self, tier):
        build.ensure_single("c10_heapfill.so", os.path.join(build.HARNESS, "c10", "heapfill.cpp"), kind="plain",
                            extra_flags=["-shared", "-fPIC", "-O1"], needs_lib=False)

    RULE = ("A case = one summary run (optionally continuing a base run at report step r) x {formatted, unformatted} x "
            "{unified, separate} x writer {library out::Summary driven by a generated deck (TIME+YEARS+blocks/wells/"
            "field/misc/regions/inter-region pairs), independent Python encoder (all vector categories)} with N vectors "
            "(every N in 1..12 and within +-3 of 1000/2000/3000/4000, 4498..4500 enumerated x 4 modes x 2 writers; random "
            "N in 1..4500 dense around multiples of 1000; plus enumerated runs continuing a base run at N = 3, 11, 999, "
            "1001, 2000 x modes x writers x {same, permuted/sub/super vector list}), 1..8 report steps of 1..6 "
            "ministeps, values distinct for every (vector, ministep).  Every vector x every ministep is compared through ESmry::loadData(), "
            "ESmry::loadData(subset)/get (per-element seek), make_esmry_file+ExtESmry or the writer's own ESMRY+ExtESmry, "
            "and (library files) the reference decoder.  Non-trivial: N >= 1001 or N within +-2 of a multiple of 1000, "
            "with >= 2 report steps and >= 1 report step of >= 2 ministeps; distinct by (writer, fmt, unif, N, style, "
            "report-step shape, base-run shape).")
    ASSUMPTIONS = [
        "TIME is in days (METRIC/FIELD); LAB (hours) is outside the readers' dates() contract and not generated",
        "vector keys are distinct inside one run (duplicates are resolved differently by the two ESmry load paths)",
        "formatted files are compared to the 8 significant digits the format carries; unformatted bit for bit",
        "dates() compared to +-1 s (+ the float32/8-digit resolution of TIME in formatted files)",
        "library writer: 'written' = the SummaryState content observed with SummaryState::get right before "
        "add_timestep (rounded to float32), not a re-derivation of the summary evaluation (that is C09)",
        "restart runs: the base part of a series is asserted only for vectors present in both runs",
        "ExtESmry restart chaining is asserted on ESMRY files written by out::Summary (unformatted runs), by the "
        "Python encoder, and on files converted with make_esmry_file (known finding: the link is dropped)",
        "no NaN/Inf values; report-step numbers < 10000 (Snnnn)"]
    EXAMPLES = {"quick": 40, "thorough": 700}
    MIN_EVALS = {"quick": 400, "thorough": 3000}
    TIME_CAP = {"quick": 150, "thorough": 1000}
    EXHAUSTIVE = True
    LEVEL_TEXT = ("Generated-input search with an independent reference model: vector keys are derived from "
                  "(KEYWORDS, WGNAMES, NUMS, DIMENS) by a Python model of the documented key table, files are produced "
                  "both by the library writer and by an independent Python encoder of the published SMSPEC/UNSMRY/Snnnn/"
                  "ESMRY layout, and every vector at every ministep is read back through all three readers and both "
                  "ESmry load paths.  Vector counts 1..12 and +-3 around 1000, 2000, 3000, 4000 and 4498..4500 are "
                  "enumerated for all four output modes and both writers; everything else is sampled.")
    LEVEL_NOTE = ("Trusted: vlib/eclcodec.py as the statement of the record layout and the Python key model. Not "
                  "covered: LGR vectors (LB*/LC*/LW*), NAMES (long well names) arrays, network node vectors, "
                  "more than one level of restart nesting, summary files still being written by another process.")
    TECHNIQUE = ("property-based testing: enumerated block-boundary vector counts + Hypothesis, two writers x three "
                 "readers (differential + round trip), reference decoder; heap poisoning (LD_PRELOAD malloc fill) to make "
                 "reads behind a buffer deterministic")

    # ---------------------------------------------------------------- generation
    def strategy(self, tier):
        return case_strategy(tier)

    def enumerate(self, tier):
        ns = list(range(1, 13)) + N_NEAR
        if tier == "thorough":
            ns = list(range(1, 13)) + [n for k in (1000, 2000, 3000, 4000) for n in range(k - 10, k + 11)] + list(range(4490, 4501))
        i = 0
        for n in ns:
            for fmt in (False, True):
                for unif in (False, True):
                    for writer in ("py", "lib"):
                        i += 1
                        yield {"writer": writer, "fmt": fmt, "unif": unif, "grid": i % len(GRIDS), "field": bool(i % 3 == 0),
                               "start": [1 + i % 28, 1 + i % 12, 1990 + i % 40, 0 if i % 2 else 7, 0 if i % 2 else 15, 0],
                               "run": {"n": n, "vseed": i, "style": ["block", "mixed", "well"][i % 3],
                                       "rsteps": [[2, 1, 3], [1, 2], [3, 3, 1, 1]][i % 3], "dt8": [8, 3, 20, 1],
                                       "idgap": 0, "flush": 0xFFFF if i % 4 else 0x5A5A},
                               "base": None, "esmry": bool(i % 5 < 2), "startdat3": bool(i % 7 == 0),
                               "ext": [], "subset": i}
        # runs continuing a base run
        bns = [3, 11, 999, 1001, 2000] if tier == "quick" else [1, 2, 3, 7, 11, 999, 1000, 1001, 1999, 2001, 3000, 4001]
        for n in bns:
            for fmt in (False, True):
                for unif in (False, True):
                    for writer in ("py", "lib"):
                        for vectors in ("same", "other"):
                            i += 1
                            brs = [[2, 1, 2], [1, 3, 1, 1], [2, 2]][i % 3]
                            if vectors == "other":
                                vectors = ["perm", "sub", "super"][i % 3]
                            yield {"writer": writer, "fmt": fmt, "unif": unif, "grid": i % len(GRIDS), "field": bool(i % 3 == 0),
                                   "start": [1 + i % 28, 1 + i % 12, 1990 + i % 40, 0 if i % 2 else 23, 0 if i % 2 else 59, 0],
                                   "run": {"n": n, "vseed": i, "style": ["mixed", "well", "block"][i % 3],
                                           "rsteps": [[1, 2], [3, 1, 1]][i % 2], "dt8": [8, 3, 20, 1],
                                           "idgap": 0, "flush": 0xFFFF if i % 4 else 0x3333},
                                   "base": {"run": {"n": n, "vseed": i + 1000, "style": ["mixed", "well", "block"][i % 3],
                                                    "rsteps": brs, "dt8": [4, 9, 2], "idgap": 0, "flush": 0xFFFF},
                                            "r": 1 + (i // 3) % len(brs), "vectors": vectors,
                                            "where": ["same", "sub", "abs", "abslong"][(i // 2) % 4]},
                                   "esmry": bool(i % 5 < 3), "startdat3": False, "ext": [], "subset": i}

    def eff_n(self, case):
        """vector count of the (continuing) run as it is really built"""
        n = case["run"]["n"]
        b = case["base"]
        if b:
            bn = b["run"]["n"]
            if b["vectors"] == "same":
                n = bn
            elif case["writer"] == "py":
                n = {"perm": bn, "sub": 1 + max(0, (bn - 1) * 2 // 3), "super": bn + 1 + bn // 7}[b["vectors"]]
        return n

    def classify(self, case):
        run = case["run"]
        n = self.eff_n(case)
        rs = run["rsteps"]
        near = n >= 1001 or (n >= 998 and (n % 1000 <= 2 or n % 1000 >= 998))
        shape = len(rs) >= 2 and any(c >= 2 for c in rs)
        labels = ["writer:" + case["writer"], "fmt" if case["fmt"] else "unfmt", "unified" if case["unif"] else "separate",
                  "style:" + run["style"],
                  "N:" + ("<=12" if n <= 12 else "<998" if n < 998 else "1000+-2" if (n % 1000 <= 2 or n % 1000 >= 998) else
                          ">1000")]
        if n > 1000:
            labels.append("blocks:%d" % (-(-n // 1000)))
        if case["base"]:
            b = case["base"]
            labels.append("base-run")
            labels.append("base-vectors:" + b["vectors"])
            labels.append("base-cut:" + ("last" if b["r"] == len(b["run"]["rsteps"]) else "inner"))
        if case["esmry"]:
            labels.append("esmry-by-writer")
        else:
            labels.append("esmry-by-conversion")
        if shape:
            labels.append("substeps+multi-report")
        fp = sha([case["writer"], case["fmt"], case["unif"], n, run["style"], rs,
                  (case["base"]["r"], case["base"]["run"]["n"], case["base"]["run"]["rsteps"], case["base"]["vectors"])
                  if case["base"] else None], 16)
        return bool(near and shape), fp, labels

    def sample_view(self, case):
        return case

    def floors(self, tier):
        return {"writer:lib": 0.25, "writer:py": 0.25, "fmt": 0.25, "separate": 0.25, "N:1000+-2": 0.10, "N:>1000": 0.10}

    # ---------------------------------------------------------------- building one run
    def build_run(self, case, ctx, run, base_name, dirp, run_id, restart, t0, first_rs, vecs_override=None):
        """writes the files of one run, returns the model:
        {keys:[...], units:{key:unit}, series:{key:[bits]}, plan, ids, start, has_esmry}"""
        P = ctx.P
        grid = self.grid_of(case, run)
        fmt, unif = case["fmt"], case["unif"]
        run = dict(run)
        run["first_rs"] = first_rs
        plan = run_plan(run, t0, first_rs)
        M = len(plan)
        model = {"plan": plan, "grid": grid, "base": base_name, "dir": dirp, "restart_root": restart[0] if restart else ""}
        if case["writer"] == "py":
            vecs = vecs_override if vecs_override is not None else py_vectors(run["n"], run["vseed"], run["style"], grid)
            ids = []
            x = 0 if run_id == 0 else first_rs * 3
            for m in range(M):
                ids.append(x)
                x += 1 + (run["idgap"] if (m % 4 == 2) else 0)
            params = []
            for m, (rs, last, t) in enumerate(plan):
                row = [py_value_bits(j, m, run_id, case["ext"]) for j in range(len(vecs))]
                row[0] = f32bits(t / 8.0)
                params.append(row)
            py_write_run(dirp, base_name, fmt, unif, vecs, grid, case["start"], restart, case["startdat3"] and
                         not any(case["start"][3:]), 2 if case["field"] else 1, plan, ids, params)
            keys = [make_key(v["kw"], v["wg"], v["num"], grid) for v in vecs]
            if len(set(keys)) != len(keys):
                raise RuntimeError("generator produced duplicate keys")
            model["keys"] = keys
            model["units"] = {k: v["unit"] for k, v in zip(keys, vecs)}
            model["series"] = {k: [params[m][j] for m in range(M)] for j, k in enumerate(keys)}
            model["ids"] = ids
            model["vecs"] = vecs
            model["has_esmry"] = False
            if case["esmry"]:
                py_write_esmry(dirp, base_name, keys, [v["unit"] for v in vecs], case["start"], restart,
                               [1 if last else 0 for (_, last, _) in plan], ids,
                               [model["series"][k] for k in keys])
                model["has_esmry"] = True
            return model
        # ---- library writer
        nreq = run["n"] - 2
        if nreq < 0:
            raise Discard()
        req = vecs_override if vecs_override is not None else lib_request(nreq, run["vseed"], run["style"], grid)
        deck = lib_deck(case, run, req, grid, restart)
        blocks = [[kw, c] for kw, cells in req["blocks"] for c in cells]
        wanted = [("TIME", NO_WG, 0), ("YEARS", NO_WG, 0)]
        wanted += [(kw, NO_WG, 0) for kw in req["misc"] + req["field"]]
        wanted += [(kw, w, 0) for kw in req["wellkw"] for w in req["wells"]]
        wanted += [(kw, NO_WG, r) for kw in req["regkw"] for r in range(1, req["nreg"] + 1)]
        wanted += [(kw, NO_WG, a + 32768 * (b + 10)) for kw in req["pairkw"] for (a, b) in req["pairs"]]
        wanted += [(kw, NO_WG, c) for kw, c in blocks]
        stkeys = [st_key(*w) for w in wanted]
        steps = []
        for m, (rs, last, t) in enumerate(plan):
            s = {"rs": rs, "t": t * 10800.0, "sub": not last,
                 "flush": bool((run["flush"] >> (m % 16)) & 1) or m == M - 1, "final": m == M - 1}
            s["bv"] = [float((m + 1) * 8192 + j + 1) * (1.0 if j % 3 else 0.001) for j in range(len(blocks))]
            s["sv"] = [float(m * 64 + j + 1) for j in range(len(req["misc"]))]
            if req["nreg"]:
                s["rv"] = [[float((m + 1) * 4096 + 100 * k + r) * 1000.0 for r in range(req["nreg"])] for k in range(len(req["regkw"]))]
            if req["wells"]:
                s["wv"] = [[-(m * 1024 + 3 * w + 1) * 1e-5, -(m * 1024 + 3 * w + 2) * 1e-5, -(m * 1024 + 3 * w + 3) * 1e-3,
                            (m * 1024 + w + 1) * 1.0e4, (m * 1024 + w + 1) * 1.0e3] for w in range(len(req["wells"]))]
            steps.append(s)
        deck_path = os.path.join(dirp, base_name + ".DATA")
        with open(deck_path, "w") as f:
            f.write(deck)
        if restart:
            # the input layer only wants the restart file of the base run to exist
            rp = restart[0] if os.path.isabs(restart[0]) else os.path.join(dirp, restart[0])
            with open("%s.X%04d" % (rp, restart[1]), "wb"):
                pass
        r = P.call("smry_write", deck_path=deck_path, dir=dirp, base=base_name, esmry=bool(case["esmry"]), blocks=blocks,
                   singles=req["misc"], regnames=req["regkw"], wells=req["wells"], keys=stkeys, steps=steps)
        keys = [make_key(kw, wg, num, grid) for (kw, wg, num) in wanted]
        if len(set(keys)) != len(keys):
            raise RuntimeError("generator produced duplicate keys")
        series = {}
        missing = 0
        for j, k in enumerate(keys):
            col = []
            for m in range(M):
                x = r["st"][m][j]
                if x is None:
                    col.append(0)        # documented: parameter not yet evaluated -> 0.0
                    missing += 1
                else:
                    col.append(f32bits(hexf(x)))
            series[k] = col
        if missing:
            ctx.label("lib:vector-never-evaluated(0.0)", 1)
        model["keys"] = keys
        model["series"] = series
        model["units"] = None          # taken from the decoded SMSPEC
        model["ids"] = list(range(M))
        model["wanted"] = wanted
        model["req"] = req
        model["has_esmry"] = bool(case["esmry"]) and not fmt
        return model

    def grid_of(self, case, run):
        # one grid per case: a continuing run has the grid of its base run
        r = case["run"]
        if not case["base"] and r["n"] <= 8 and r["style"] != "well" and case["writer"] == "py":
            return SMALL_GRIDS[case["grid"] % len(SMALL_GRIDS)]
        return GRIDS[case["grid"] % len(GRIDS)]

    # ---------------------------------------------------------------- oracle
    def check(self, case, ctx):
        self.deferred = []
        v = self.check_inner(case, ctx)
        if v is None and self.deferred:
            # several deferred findings in one case: one that is not listed as known goes first
            known = set(e.get("key") for e in load_known(self.ID) if e.get("status") == "known")
            for d in self.deferred:
                if d.get("key") not in known:
                    return d
            return self.deferred[0]
        return v

    def check_inner(self, case, ctx):
        if os.path.isdir(os.path.join(ctx.tmp, "c10")):
            shutil.rmtree(os.path.join(ctx.tmp, "c10"))
        top = os.path.join(ctx.tmp, "c10")
        os.makedirs(top)
        fmt = case["fmt"]
        base = case["base"]
        bm = None
        restart = None
        t0 = 0
        first_rs = 1
        rundir = os.path.join(top, "run")
        os.makedirs(rundir)
        if base:
            where = base["where"]
            if where == "same":
                bdir, root = rundir, "BASE1"
            elif where == "sub":
                bdir, root = os.path.join(rundir, "hist"), "hist/BASE1"
            elif where == "abs":
                bdir = os.path.join(top, "elsewhere")
                root = os.path.join(bdir, "BASE1")
            else:
                bdir = os.path.join(top, "a-rather-long-directory-name-for-the-base-run", "and-one-more-level-0123456789")
                root = os.path.join(bdir, "BASE1")
                if len(root) <= 72 or len(root) > 132:
                    raise Discard()
            os.makedirs(bdir, exist_ok=True)
            bcase = dict(case)
            bm = self.build_run(bcase, ctx, base["run"], "BASE1", bdir, 0, None, 0, 1)
            r = base["r"]
            cut = max(i for i, (rs, last, t) in enumerate(bm["plan"]) if rs <= r)
            bm["cut"] = cut
            t0 = bm["plan"][cut][2]
            first_rs = r + 1
            restart = (root, r)
        # vectors of the continuing run
        override = None
        if base and case["writer"] == "py":
            bv = bm["vecs"]
            mode = base["vectors"]
            if mode == "same":
                override = bv
            elif mode == "perm":
                override = [bv[0]] + shuffled(bv[1:], case["subset"])
            elif mode == "sub":
                keep = shuffled(bv[1:], case["subset"])[:max(0, (len(bv) - 1) * 2 // 3)]
                override = [bv[0]] + keep
            else:
                extra = [{"kw": "FUEXTRA%d" % i if i < 10 else "BDENW", "wg": NO_WG, "num": 0 if i < 10 else i, "unit": "X"}
                         for i in range(1, 1 + 1 + len(bv) // 7)]
                extra = [e for e in extra if e["kw"] != "BDENW" or e["num"] <= bm["grid"][0] * bm["grid"][1] * bm["grid"][2]]
                override = [bv[0]] + shuffled(bv[1:] + extra, case["subset"])
        elif base and case["writer"] == "lib":
            if base["vectors"] == "same":
                override = bm["req"]
        run = case["run"]
        if override is not None and case["writer"] == "py":
            run = dict(run)
            run["n"] = len(override)
        om = self.build_run(case, ctx, run, "RUN2" if base else "CASE1", rundir, 1 if base else 0, restart, t0, first_rs,
                            override)

        # 0. the reference decoder on the library's files
        for m_ in ([bm] if bm else []) + [om]:
            if case["writer"] == "lib":
                v = self.decode_lib_files(case, m_, restart if m_ is om else None)
                if v:
                    return v
        # 1..3 readers on the run itself
        for m_ in ([bm] if bm else []) + [om]:
            v = self.read_single(case, ctx, m_)
            if v:
                v["detail"] = {"run": m_["base"], "what": v["detail"]}
                return v
        # 4. with base run data
        if bm:
            v = self.read_chained(case, ctx, bm, om)
            if v:
                return v
        return None

    # -- reference decoder on W1 files -----------------------------------------------------------
    def decode_lib_files(self, case, model, restart):
        fmt, unif = case["fmt"], case["unif"]
        dirp, base = model["dir"], model["base"]

        def V(rule, detail, key=None):
            return {"rule": "reference decoder on library files: " + rule, "detail": detail, "key": key}

        def load(fn):
            with open(os.path.join(dirp, fn), "rb") as f:
                buf = f.read()
            return EC.decode_formatted(buf) if fmt else EC.decode_unformatted(buf)[0]

        try:
            spec = load(base + (".FSMSPEC" if fmt else ".SMSPEC"))
        except (EC.CodecError, OSError) as e:
            return V("SMSPEC unreadable", str(e))
        A = {}
        for a in spec:
            A[a["name"].rstrip()] = a
        for need in ("RESTART", "DIMENS", "KEYWORDS", "WGNAMES", "NUMS", "UNITS", "STARTDAT"):
            if need not in A:
                return V("SMSPEC lacks " + need, sorted(A))
        kws = [s.rstrip() for s in A["KEYWORDS"]["data"]]
        wgs = [s.rstrip() for s in A["WGNAMES"]["data"]]
        nums = A["NUMS"]["data"]
        units = [s.rstrip() for s in A["UNITS"]["data"]]
        dim = A["DIMENS"]["data"]
        n = len(kws)
        if not (len(wgs) == len(nums) == len(units) == n == dim[0]):
            return V("SMSPEC array sizes / DIMENS[0]", [len(kws), len(wgs), len(nums), len(units), dim[0]])
        if tuple(dim[1:4]) != tuple(model["grid"]):
            return V("DIMENS grid", [dim, model["grid"]])
        # without a base run the value of DIMENS[5] is not specified (the library writes 0, Eclipse -1)
        if restart and dim[5] != restart[1]:
            return V("DIMENS restart step", [dim[5], restart])
        root = "".join(s.ljust(8) for s in A["RESTART"]["data"]).rstrip()
        if root != (restart[0] if restart else ""):
            return V("RESTART root", [root, restart])
        d, mo, y, h, mi, s = case["start"]
        if A["STARTDAT"]["data"] != [d, mo, y, h, mi, s * 1000000]:
            return V("STARTDAT", [A["STARTDAT"]["data"], case["start"]])
        keys = [make_key(kws[i], wgs[i], nums[i], model["grid"]) for i in range(n)]
        if sorted(keys) != sorted(model["keys"]):
            miss = sorted(set(model["keys"]) - set(keys))[:5]
            extra = sorted(set(keys) - set(model["keys"]))[:5]
            return V("vector set of the SMSPEC differs from the request", {"missing": miss, "unexpected": extra,
                                                                             "n_file": n, "n_model": len(model["keys"])})
        model["units"] = {k: u for k, u in zip(keys, units)}
        model["file_order"] = keys
        # data files
        plan = model["plan"]
        if unif:
            fns = [base + (".FUNSMRY" if fmt else ".UNSMRY")]
        else:
            fns = []
            for (rs, last, t) in plan:
                fn = base + ((".A%04d" if fmt else ".S%04d") % rs)
                if fn not in fns:
                    fns.append(fn)
        arrs = []
        for fn in fns:
            try:
                part = load(fn)
            except (EC.CodecError, OSError) as e:
                return V("summary data file unreadable: " + fn, str(e))
            if not part or part[0]["name"].rstrip() != "SEQHDR":
                return V("data file does not start with SEQHDR", fn)
            arrs.extend(part)
        i = 0
        prev = None
        for m, (rs, last, t) in enumerate(plan):
            if rs != prev:
                if i >= len(arrs) or arrs[i]["name"].rstrip() != "SEQHDR":
                    return V("expected SEQHDR before ministep %d" % m, arrs[i]["name"] if i < len(arrs) else None)
                i += 1
                prev = rs
            if i + 1 >= len(arrs) or arrs[i]["name"].rstrip() != "MINISTEP" or arrs[i + 1]["name"].rstrip() != "PARAMS":
                return V("expected MINISTEP, PARAMS at ministep %d" % m, [a["name"] for a in arrs[i:i + 2]])
            if arrs[i]["data"] != [model["ids"][m]]:
                return V("MINISTEP id", [m, arrs[i]["data"], model["ids"][m]])
            p = arrs[i + 1]
            if p["type"] != "REAL" or len(p["data"]) != n:
                return V("PARAMS type/length", [p["type"], len(p["data"]), n])
            for j, k in enumerate(keys):
                want = model["series"][k][m]
                got = p["data"][j]
                if fmt:
                    ok = close_real(want, f32bits(got))
                else:
                    ok = got == want
                if not ok:
                    return V("PARAMS value", {"key": k, "pos": j, "ministep": m, "want": want, "got": got, "n": n})
            i += 2
        if i != len(arrs):
            return V("trailing arrays in data files", [a["name"] for a in arrs[i:i + 3]])
        return None

    # -- comparison helpers -----------------------------------------------------------------------
    def start_secs(self, case):
        import calendar
        d, mo, y, h, mi, s = case["start"]
        return calendar.timegm((y, mo, d, h, mi, s, 0, 0, 0))

    def cmp_series(self, fmt, want, got):
        if len(want) != len(got):
            return "length %d != %d" % (len(got), len(want))
        for m in range(len(want)):
            ok = close_real(want[m], got[m]) if fmt else want[m] == got[m]
            if not ok:
                return {"ministep": m, "want_bits": want[m], "got_bits": got[m], "want": EC.f32(want[m]), "got": EC.f32(got[m])}
        return None

    def pick_subset(self, keys_in_order, seed):
        n = len(keys_in_order)
        idx = set([0, n - 1, n // 2])
        for k in range(1000, n + 3, 1000):
            for d in (-2, -1, 0, 1, 2):
                if 0 <= k + d < n:
                    idx.add(k + d)
        g = lcg(seed)
        for _ in range(min(n, 24)):
            idx.add(next(g) % n)
        return [keys_in_order[i] for i in sorted(idx)]

    def verify_reply(self, who, case, rd, keys_dumped, exp, fmt, rstep_keys, check_list=True, startdat3=False):
        """exp: {series:{k:[bits]}, units:{k:u}, rpos:[ministep index of each report step], allkeys:set, M, ids}"""
        def V(rule, detail, key=None):
            return {"rule": "%s: %s" % (who, rule), "detail": detail, "key": key}

        M = exp["M"]
        if check_list:
            if sorted(rd["keywords"]) != sorted(exp["allkeys"]):
                miss = sorted(set(exp["allkeys"]) - set(rd["keywords"]))[:5]
                extra = sorted(set(rd["keywords"]) - set(exp["allkeys"]))[:5]
                return V("keyword list", {"missing": miss, "unexpected": extra, "n_got": len(rd["keywords"]),
                                          "n_want": len(exp["allkeys"])})
            if rd["nvect"] != len(exp["allkeys"]):
                return V("numberOfVectors", [rd["nvect"], len(exp["allkeys"])])
        if rd["ntstep"] != M:
            return V("numberOfTimeSteps", [rd["ntstep"], M])
        d, mo, y, h, mi, s = case["start"]
        sv = rd["start_v"]
        if startdat3:
            h = mi = s = 0
        if sv[:3] != [d, mo, y] or (len(sv) > 3 and sv[3:5] != [h, mi]):
            return V("start_v", [sv, case["start"]])
        if rd["startdate"] != self.start_secs(case):
            if "ExtESmry" in who and rd["startdate"] == self.start_secs(case) - s and s:
                # genuine: reported at the end of the case so that everything else is still checked
                self.deferred.append(V("startdate lacks the seconds of the start time",
                                       {"got": rd["startdate"], "want": self.start_secs(case), "start": case["start"],
                                        "start_v": sv}, "extesmry-start-seconds-dropped"))
            else:
                return V("startdate", [rd["startdate"], self.start_secs(case)])
        for i, k in enumerate(keys_dumped):
            bad = self.cmp_series(fmt, exp["series"][k], rd["data"][i])
            if bad is not None:
                return V("series differs", {"key": k, "at": bad, "nvect": len(exp["allkeys"]), "M": M,
                                            "file_pos": exp.get("pos", {}).get(k)})
            if rd["units"][i].rstrip() != exp["units"][k].rstrip():
                if k == "YEARS" and rd["units"][i] == "" and case["writer"] == "lib" and "ExtESmry" in who \
                        and "make_esmry_file" not in who:
                    # genuine, minor: reported once at the end of the case so that everything else is still checked
                    self.deferred.append(V("unit", [k, rd["units"][i], exp["units"][k]], "summary-esmry-years-unit"))
                    continue
                return V("unit", [k, rd["units"][i], exp["units"][k]])
        # time axis
        tw = exp["series"]["TIME"]
        if "dates" in rd:
            if len(rd["dates"]) != M:
                return V("dates length", [len(rd["dates"]), M])
            s0 = rd["startdate"]          # (startdate itself is asserted above)
            for m in range(M):
                t = EC.f32(tw[m])
                # date = start + TIME days, to the second (+ TIME's own resolution in 8-digit text)
                tol = 1.0 + (86400.0 * abs(t) * 6.0e-8 if fmt else 0.0)
                if abs(rd["dates"][m] - (s0 + t * 86400.0)) > tol:
                    return V("dates()", {"ministep": m, "got": rd["dates"][m], "want": s0 + t * 86400.0, "TIME": t})
        # report step positions
        rpos = exp["rpos"]
        for i, k in enumerate(rstep_keys):
            want = [exp["series"][k][p] for p in rpos]
            bad = self.cmp_series(fmt, want, rd["rstep"][i])
            if bad is not None:
                return V("get_at_rstep", {"key": k, "at": bad, "rpos": rpos})
        if "rstep_idx" in rd:
            if rd["rstep_idx"] != rpos:
                return V("timestepIdxAtReportstepStart / report-step positions", [rd["rstep_idx"], rpos])
            if len(rd["dates_at_rstep"]) != len(rpos):
                return V("dates_at_rstep length", [len(rd["dates_at_rstep"]), len(rpos)])
            if "dates" in rd and rd["dates_at_rstep"] != [rd["dates"][p] for p in rpos]:
                return V("dates_at_rstep", [rd["dates_at_rstep"], rpos])
        ids = exp["ids"]
        want_all = not any(ids[i] - ids[i - 1] > 1 for i in range(1, len(ids)))
        if rd["all_steps"] != want_all:
            return V("all_steps_available", [rd["all_steps"], ids])
        return None

    def expectation(self, model):
        plan = model["plan"]
        exp = {"series": model["series"], "units": model["units"], "M": len(plan), "ids": model["ids"],
               "rpos": [i for i, (rs, last, t) in enumerate(plan) if last], "allkeys": set(model["keys"]),
               "pos": {k: i for i, k in enumerate(model.get("file_order", model["keys"]))}}
        return exp

    def read_single(self, case, ctx, model):
        P = ctx.P
        fmt = case["fmt"]
        path = os.path.join(model["dir"], model["base"] + (".FSMSPEC" if fmt else ".SMSPEC"))
        exp = self.expectation(model)
        order = model.get("file_order", model["keys"])
        allkeys = list(order)
        sd3 = case["writer"] == "py" and case["startdat3"] and not any(case["start"][3:])
        rkeys = self.pick_subset(order, case["subset"] + 1)[:6]
        if "TIME" not in rkeys:
            rkeys.append("TIME")

        def lib_read(who, **kw):
            try:
                return P.call(**kw), None
            except LibError as e:
                return None, {"rule": "%s: reader throws on files of a valid run" % who, "detail": str(e), "key": None}

        # (a) loadData(): whole-PARAMS parsing, all vectors
        rd, v = lib_read("ESmry loadData()", cmd="smry_read", path=path, base_run=False, load="all", dump=allkeys,
                         rstep_keys=rkeys)
        if v:
            return v
        v = self.verify_reply("ESmry loadData()", case, rd, allkeys, exp, fmt, rkeys, startdat3=sd3)
        if v:
            return v
        # (b) loadData(vectList) on a fresh object: per-element seek; the rest through get() one by one
        sub = self.pick_subset(order, case["subset"])
        n = len(order)
        others = self.pick_subset(order, case["subset"] + 7)[:10]
        dump = sub + [k for k in others if k not in sub]
        if n <= 1200 or case["subset"] % 4 == 0:
            dump = sub + [k for k in shuffled(order, case["subset"]) if k not in sub]
        rd, v = lib_read("ESmry loadData(vectList)/get", cmd="smry_read", path=path, base_run=False, load="list", list=sub,
                         dump=dump, rstep_keys=rkeys)
        if v:
            return v
        v = self.verify_reply("ESmry loadData(vectList)/get", case, rd, dump, exp, fmt, rkeys, startdat3=sd3)
        if v:
            return v
        # (b') the same per-element read with fresh heap memory filled with the character '0': a reader that parses
        #      past the end of its 17-character field buffer now sees digits there (deterministically)
        if fmt:
            v = self.read_digit_heap(case, ctx, path, sub[:40], exp)
            if v:
                self.deferred.append(v)
        # (c) ESMRY: written by the writer, or converted from the SMSPEC
        epath = os.path.join(model["dir"], model["base"] + ".ESMRY")
        if not model["has_esmry"]:
            if os.path.exists(epath):
                return {"rule": "an ESMRY file exists although none was requested", "detail": epath, "key": None}
            mk, v = lib_read("make_esmry_file", cmd="smry_make_esmry", path=path)
            if v:
                return v
            if not mk["made"] or not os.path.exists(epath):
                return {"rule": "make_esmry_file did not create the ESMRY file", "detail": mk, "key": None}
            who = "make_esmry_file + ExtESmry"
            ctx.label("path:make_esmry_file")
        else:
            if not os.path.exists(epath):
                return {"rule": "the writer was asked for an ESMRY file but none exists", "detail": epath, "key": None}
            who = "writer's ESMRY + ExtESmry"
            ctx.label("path:esmry-by-library" if case["writer"] == "lib" else "path:esmry-by-python")
        left = [f for f in os.listdir(model["dir"]) if "_TMP_" in f]
        if left:
            return {"rule": "temporary ESMRY file left behind", "detail": left, "key": None}
        # ESMRY holds floats (binary) even when the run was formatted; values converted from text keep text precision
        efmt = fmt
        if case["subset"] % 2 == 0:
            rd, v = lib_read(who, cmd="esmry_read", path=epath, base_run=False, load="all", dump=allkeys, rstep_keys=rkeys)
            dumped = allkeys
        else:
            rd, v = lib_read(who, cmd="esmry_read", path=epath, base_run=False, load="list", list=sub, dump=dump,
                             rstep_keys=rkeys)
            dumped = dump
        if v:
            return v
        v = self.verify_reply(who, case, rd, dumped, exp, efmt, rkeys, startdat3=sd3)
        if v:
            return v
        # (d) interleaved access on ONE reader object: some vectors are already loaded (get / dates / get_at_rstep / an
        #     earlier loadData(list), a list may name a vector twice) when loadData() / loadData(list) / get() follow;
        #     whatever the order of the calls, every series must be the one that was written
        pre = self.access_script(order, case["subset"])
        for who2, cmd, pth, f2 in (("ESmry, interleaved access", "smry_read", path, fmt),
                                   (who + ", interleaved access", "esmry_read", epath, efmt)):
            rd, v = lib_read(who2, cmd=cmd, path=pth, base_run=False, pre=pre,
                             load=["all", "list", "none"][case["subset"] % 3], list=sub, dump=allkeys, rstep_keys=rkeys)
            if v:
                return v
            v = self.verify_reply(who2, case, rd, allkeys, exp, f2, rkeys, startdat3=sd3)
            if v:
                v["detail"] = {"access_before_dump": pre, "finding": v.get("detail")}
                return v
        ctx.label("interleaved-access-scripts")
        return None

    @staticmethod
    def access_script(order, salt):
        """2..4 accesses drawn deterministically from the case's subset number"""
        import hashlib

        def h(*tag):
            return int.from_bytes(hashlib.sha256(("%d|%s" % (salt, "|".join(map(str, tag)))).encode()).digest()[:4], "big")
        n = len(order)
        script = []
        for j in range(2 + h("n") % 3):
            kind = ["get", "dates", "rstep", "load_list", "load_list", "load_all"][h("k", j) % 6]
            if kind in ("get", "rstep"):
                script.append([kind, order[h("key", j) % n] if h("t", j) % 3 else "TIME"])
            elif kind == "dates":
                script.append(["dates"])
            elif kind == "load_all":
                if j + 1 < 2 + h("n") % 3:      # loading everything first leaves nothing interleaved: only as a later step
                    script.append(["load_all"])
                else:
                    script.append(["get", order[h("key", j) % n]])
            else:
                m = 1 + h("m", j) % min(6, n)
                ks = [order[h("lk", j, q) % n] for q in range(m)]
                if h("rep", j) % 3 == 0:
                    ks.append(ks[0])            # a vector named twice
                script.append(["load_list", ks])
        return script

    def read_digit_heap(self, case, ctx, path, sub, exp):
        from vlib.probe import Probe, ProbeCrash
        P2 = Probe(ctx.P.exe, env={"LD_PRELOAD": self.HEAPFILL, "C10_HEAP_FILL": "48"}, tmp_root=ctx.tmp_root)
        try:
            try:
                rd = P2.call("smry_read", path=path, base_run=False, load="list", list=sub, dump=sub, dates=False)
            except LibError as e:
                return {"rule": "ESmry loadData(vectList) with '0'-filled heap: reader throws", "detail": str(e), "key": None}
            except ProbeCrash as e:
                return {"rule": "ESmry loadData(vectList) with '0'-filled heap: crash", "detail": str(e), "key": "crash"}
        finally:
            P2.close()
        for i, k in enumerate(sub):
            bad = self.cmp_series(True, exp["series"][k], rd["data"][i])
            if bad is not None:
                w, g = bad.get("want"), bad.get("got")
                garbage = isinstance(bad, dict) and (g in (float("inf"), float("-inf"), 0.0) or (w and g / w > 9.9))
                return {"rule": "ESmry::loadData(vectList) on a formatted file parses past its 17-character buffer "
                                "(value depends on the heap bytes behind it)" if garbage else
                                "ESmry loadData(vectList) with '0'-filled heap: series differs",
                        "detail": {"key": k, "at": bad, "heap_fill": "0x30"},
                        "key": "esmry-fmt-seek-unterminated-strtof" if garbage else None}
        return None

    def read_chained(self, case, ctx, bm, om):
        """the continuing run read with loadBaseRunData: base[0..cut] ++ own"""
        P = ctx.P
        fmt = case["fmt"]
        cut = bm["cut"]
        M = cut + 1 + len(om["plan"])
        common = [k for k in om.get("file_order", om["keys"]) if k in bm["series"]]
        series = {k: bm["series"][k][:cut + 1] + om["series"][k] for k in common}
        units = {k: om["units"][k] for k in common}
        rpos = [i for i, (rs, last, t) in enumerate(bm["plan"][:cut + 1]) if last] + \
               [cut + 1 + i for i, (rs, last, t) in enumerate(om["plan"]) if last]
        ids = bm["ids"][:cut + 1] + om["ids"]
        exp = {"series": series, "units": units, "M": M, "ids": ids, "rpos": rpos,
               "allkeys": set(om["keys"]) | set(bm["keys"]), "pos": {}}
        path = os.path.join(om["dir"], om["base"] + (".FSMSPEC" if fmt else ".SMSPEC"))
        sd3 = case["writer"] == "py" and case["startdat3"] and not any(case["start"][3:])
        rkeys = [k for k in self.pick_subset(common, case["subset"] + 1)[:6]]
        if "TIME" not in rkeys:
            rkeys.append("TIME")
        diff_vectors = sorted(bm["keys"]) != sorted(om["keys"]) or \
            bm.get("file_order", bm["keys"]) != om.get("file_order", om["keys"])
        # known defect (see known_findings): ESmry's constructor pairs the KEYWORDS/NUMS of every run with the WGNAMES
        # of the oldest base run when it fills arrayPos, which only the per-element path (loadData(vectList)/get) uses;
        # if the continuing run has more vectors than the base run it indexes past the end of that array
        key = "esmry-baserun-wgnames-of-base" if diff_vectors else None
        more = len(om["keys"]) > len(bm["keys"])

        def lib_read(who, k, **kw):
            try:
                return P.call(**kw), None
            except LibError as e:
                return None, {"rule": "%s: reader throws on files of a valid run" % who, "detail": str(e), "key": k}
            except ProbeCrash as e:
                return None, {"rule": "%s: reader crashes on files of a valid run" % who, "detail": str(e),
                              "stderr": e.stderr[-1500:], "key": k or "crash"}

        ctx.label("path:chained-ESmry")
        if len(om["restart_root"]) > 72:
            ctx.label("restart-root>72chars")
        who = "ESmry(loadBaseRunData) loadData()"
        rd, v = lib_read(who, key if more else None, cmd="smry_read", path=path, base_run=True, load="all", dump=common,
                         rstep_keys=rkeys)
        if v:
            return v
        v = self.verify_reply(who, case, rd, common, exp, fmt, rkeys, startdat3=sd3)
        if v:
            return v
        who = "ESmry(loadBaseRunData) loadData(vectList)/get"
        sub = self.pick_subset(common, case["subset"])
        rd, v = lib_read(who, key, cmd="smry_read", path=path, base_run=True, load="list", list=sub, dump=sub,
                         rstep_keys=rkeys)
        if v:
            return v
        v = self.verify_reply(who, case, rd, sub, exp, fmt, rkeys, startdat3=sd3)
        if v:
            if v["rule"].endswith("series differs") or v["rule"].endswith("get_at_rstep"):
                v["key"] = key
            return v
        # ExtESmry chaining.  ESMRY files written by the writer carry the RESTART/RSTNUM records; files converted with
        # make_esmry_file are expected to carry them too (the function has the code to write them)
        who = "ExtESmry(loadBaseRunData)" if (bm["has_esmry"] and om["has_esmry"]) else \
            "make_esmry_file + ExtESmry(loadBaseRunData)"
        ctx.label("path:chained-ExtESmry" if (bm["has_esmry"] and om["has_esmry"]) else "path:chained-ExtESmry-converted")
        epath = os.path.join(om["dir"], om["base"] + ".ESMRY")
        exp2 = dict(exp)
        exp2["allkeys"] = set(om["keys"])
        rd, v = lib_read(who, None, cmd="esmry_read", path=epath, base_run=True,
                         load="all" if case["subset"] % 2 else "list", list=sub, dump=common, rstep_keys=rkeys)
        if v:
            return v
        if not om["has_esmry"] and rd["ntstep"] == len(om["plan"]):
            # genuine: reported at the end of the case so that everything else is still checked
            self.deferred.append({"rule": "make_esmry_file drops the link to the base run: the converted ESMRY file of a "
                                          "continuing run has no RESTART/RSTNUM record, ExtESmry(loadBaseRunData) returns "
                                          "the run's own ministeps only",
                                  "detail": {"ntstep": rd["ntstep"], "want": M, "restart": [om["restart_root"], cut]},
                                  "key": "make-esmry-drops-restart-link"})
            return None
        v = self.verify_reply(who, case, rd, common, exp2, fmt, rkeys, startdat3=sd3)
        if v:
            return v
        return None
