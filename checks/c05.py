"""C05 - a restarted run continues from the same dynamic state (half A) and the same schedule (half B)."""
import hashlib
import json
import math
import os
import re

from hypothesis import strategies as st

from vlib import modelgen as MG
from vlib import refunits as RU
from vlib.runner import Check, Discard, sha
from vlib.probe import LibError, hexf

UNITS = ["METRIC", "FIELD", "LAB", "PVT-M"]
EPS32 = 2.0 ** -24          # half an ulp of a float (round to nearest), relative
EPS64 = 2.0 ** -53

# Well::ProducerCMode / InjectorCMode / Group modes (public enums, values used as ints on the wire)
P_ORAT, P_WRAT, P_GRAT, P_LRAT, P_CRAT, P_RESV, P_BHP, P_THP, P_GRUP, P_UNDEF = 1, 2, 4, 8, 16, 32, 64, 128, 256, 1024
I_RATE, I_RESV, I_BHP, I_THP, I_GRUP, I_UNDEF = 1, 2, 4, 8, 16, 512
ST_OPEN, ST_STOP, ST_SHUT, ST_AUTO = 1, 2, 3, 4
IT_OIL, IT_WATER, IT_GAS, IT_MULTI = 0, 1, 2, 3    # Opm::InjectorType


# ----------------------------------------------------------------------------------------------------------------
# deterministic expansion of the Hypothesis-drawn salt: every number of the simulator state is a function of
# (salt, tag) so that the case stays a small JSON value
def U(salt, *tag):
    h = hashlib.sha256(("%d|%s" % (salt, "|".join(map(str, tag)))).encode()).digest()
    return int.from_bytes(h[:8], "big") / 2.0 ** 64


def logu(salt, lo, hi, *tag):
    """log-uniform in [10^lo, 10^hi) with a full random mantissa"""
    return 10.0 ** (lo + (hi - lo) * U(salt, *tag))


# ----------------------------------------------------------------------------------------------------------------
# generator
EXTRA_KINDS = ["msw", "wsegvalv", "network", "wconprod_uda", "gconprod_uda", "wconinjh"]
# kinds whose effect a restart file is documented to carry (the "restart-supported keyword set")
B_POOL = ["welspecs", "compdat", "wconprod", "wconinje", "wconhist", "welopen", "weltarg", "wefac", "gefac", "gruptree",
          "gconprod", "gconinje", "wgrupcon", "wlist", "wtest", "wecon", "udq", "actionx", "misc", "nextstep"] + EXTRA_KINDS
A_POOL = B_POOL + ["wpimult"]


@st.composite
def model_strategy(draw, pool, want_msw):
    dims = [draw(st.integers(2, 5)), draw(st.integers(2, 5)), draw(st.integers(2, 4))]
    nx, ny, nz = dims
    # columns that no well may touch; some of their cells are made inactive
    cols = [(i, j) for i in range(1, nx + 1) for j in range(1, ny + 1)]
    nblock = draw(st.integers(0, max(0, min(3, len(cols) - 2))))
    blocked = draw(st.lists(st.sampled_from(cols), min_size=nblock, max_size=nblock, unique=True)) if nblock else []
    holes = []
    for (i, j) in blocked:
        for k in range(1, nz + 1):
            if draw(st.booleans()):
                holes.append((i - 1) + nx * ((j - 1) + ny * (k - 1)))
    m = MG.Model(dims=dims, blocked=blocked)
    m.uda_devices = False
    nb = draw(st.integers(2, 4))
    blocks = []
    for b in range(nb):
        blk = draw(MG.gen_block(m, first=(b == 0), kinds=pool, maxkw=5))
        if b == 0 and want_msw:
            t = draw(MG.gen_kw(m, "msw"))
            if t:
                blk["kws"].append(t)
        blocks.append(blk)
    return {"dims": dims, "blocked": [list(b) for b in blocked], "holes": sorted(holes), "blocks": blocks}


@st.composite
def case_strategy(draw, half):
    want_msw = draw(st.integers(0, 2)) == 0
    mdl = draw(model_strategy(A_POOL if half == "A" else B_POOL, want_msw))
    nsteps = sum(b["nsteps"] for b in mdl["blocks"])
    case = dict(mdl)
    case["half"] = half
    case["unit"] = draw(st.sampled_from(UNITS))
    # half B: three phases only (an injector of a phase the run does not have can never flow, and a well that does not
    # flow is written as shut)
    case["phases"] = draw(st.sampled_from(["OWG", "OWG", "OWG", "OW", "OG"])) if half == "A" else "OWG"
    case["fmt"] = draw(st.booleans())
    case["unif"] = draw(st.booleans())
    case["double"] = draw(st.booleans())
    case["n"] = draw(st.integers(1, nsteps))
    case["flavour"] = draw(st.sampled_from(["skiprest", "skiprest", "cut"]))
    case["via"] = draw(st.sampled_from(["save", "save", "eclipseio"]))
    case["load_via"] = draw(st.sampled_from(["load", "eclipseio"]))
    # which Schedule the loader is given: the one restarted from the file, or one built from the full deck alone (only
    # the dynamic state comes from the file: upstream's test_Restart, flow with restart_offset() == 0)
    case["load_sched"] = draw(st.sampled_from(["rst", "rst", "deck"])) if case["flavour"] == "skiprest" else "rst"
    case["salt"] = draw(st.integers(0, 2 ** 32 - 1))
    case["nhist"] = draw(st.integers(0, 2))          # summary evaluations before the one at the restart step
    case["substep"] = draw(st.booleans())            # an extra evaluation in the middle of the last step
    case["nextra_sol"] = draw(st.integers(0, 3))
    case["nextra"] = draw(st.integers(0, 2))
    case["nruns"] = draw(st.integers(0, 3))          # Action::State::add_run calls
    case["dyn_shut"] = draw(st.integers(0, 3)) == 0 if half == "A" else False   # simulator shut one open well
    # shapes that run into a recorded finding are generated in a minority of cases only (one quirk at a time), so that
    # the search goes on behind them: wells without any control keyword; report times off midnight (fractional TSTEP,
    # LAB hours); DRVDT without DRSDT
    # an action that ran more than once; an integer solution array
    case["quirk"] = draw(st.sampled_from([None] * 12 + ["bare_wells", "fractional_time", "drvdt", "action_reruns", "int_array", "zero_limit"]))
    return case


# quirk -> key of the recorded finding it runs into.  While that finding is listed as "known" the shape is generated in
# a minority of cases only (case["quirk"]); once it is repaired in /repo (no longer "known" in known_findings.jsonl) the
# shape is generated freely: in a quarter of all cases, independently of the other shapes (hash of case["salt"]).
QUIRK_KEY = {"bare_wells": "B:well.controlMode-undefined-throws", "fractional_time": "B:restart-time-of-day-dropped",
             "drvdt": "A:save-throws-drvdt-without-drsdt", "action_reruns": "A:action-run-count",
             "int_array": "A:int-solution-array", "zero_limit": "B:well.zero-rate-limit-dropped"}
_QUIRK_FREE = None


def quirk_on(case, name):
    global _QUIRK_FREE
    if _QUIRK_FREE is None:
        from vlib.runner import load_known
        known = {e["key"] for e in load_known("C05") if e.get("status") == "known"}
        _QUIRK_FREE = {q for q, k in QUIRK_KEY.items() if k not in known}
    if case.get("quirk") == name:
        return True
    if name in _QUIRK_FREE:
        return U(case.get("salt", 0), "quirk", name) < 0.25
    return False


WELSEGS_REC = re.compile(r"^ (\d+) \d+ (\d+) (\d+) \S+ \S+ \S+ \S+ /$", re.M)


def msw_interleaved(txt):
    """some multisegment well numbers its segments so that WellSegments (which keeps the segments of a branch together)
    stores them in an order other than by number: a segment of a higher branch has a smaller number than a segment of
    a lower branch"""
    for blk in re.findall(r"WELSEGS\n(?: .*\n)+?/\n", txt):
        recs = [(int(a), int(b)) for a, b, _ in WELSEGS_REC.findall(blk)]
        if any(n1 < n2 and b1 > b2 for n1, b1 in recs for n2, b2 in recs):
            return True
    return False


def phase_list(case):
    return {"OWG": ("OIL", "WATER", "GAS"), "OW": ("OIL", "WATER"), "OG": ("OIL", "GAS")}[case["phases"]]


def adapt_phases(case, text):
    """two-phase decks: injectors inject the phase that exists"""
    text = text.replace("ACTDIMS\n 10 10 10 10 /", "ACTDIMS\n 10 50 128 10 /")     # room for the generated ACTIONX bodies
    return text


WELSPECS_RE = re.compile(r"^WELSPECS\n '(\w+)' '\w+' \d+ \d+ \S+ '(\w+)'", re.M)


def block_kws(case, b):
    """keywords of a block; unless the case asks for bare wells, every well introduced in the block that gets no
    WCON* keyword there receives a default one (a well without any control mode cannot be restarted: known finding)"""
    kws = list(b["kws"])
    if case["half"] == "B":
        # GCONSALE is outside the statement's list and not stored in restart files; it turns its group into a production
        # group as a side effect, which would show up under the group attributes
        kws = [k for k in kws if not k.startswith("GCONSALE")]
    if not quirk_on(case, "drvdt"):
        kws = [k for k in kws if not k.startswith("DRVDT")]
    if not quirk_on(case, "zero_limit"):
        # a rate limit of exactly 0 is dropped by the restart writer (known finding): use a small positive limit instead
        kws = [re.sub(r"(?<= )0(?= )", "0.5", k) if k.startswith(("WCONPROD", "WCONINJE")) else k for k in kws]
    if quirk_on(case, "bare_wells"):
        return kws
    txt = "".join(k for k in kws if not k.startswith("ACTIONX"))       # an ACTIONX body is not executed by the deck
    for mt in WELSPECS_RE.finditer(txt):
        w, ph = mt.group(1), mt.group(2)
        if re.search(r"^WCON(PROD|INJE|HIST|INJH)\n '%s' " % w, txt, re.M):
            continue
        if w.startswith("P"):
            kws.append("WCONPROD\n '%s' 'OPEN' 'BHP' 5* 100 /\n/\n" % w)
        else:
            kws.append("WCONINJE\n '%s' '%s' 'OPEN' 'RATE' 100 1* 400 /\n/\n" % (w, ph))
    return kws


def block_time(case, b):
    t = b["time"]
    if quirk_on(case, "fractional_time") or not t.startswith("TSTEP"):
        return t
    vals = [math.ceil(float(x)) for x in t.split("\n")[1].replace("/", "").split()]
    if case["unit"] == "LAB":
        vals = [24 * v for v in vals]          # LAB time unit is the hour
    return "TSTEP\n %s /\n" % " ".join(str(v) for v in vals)


def strip_tables(text, phases):
    drop = []
    if "GAS" not in phases:
        drop += ["SGOF", "PVDG"]
    if "WATER" not in phases:
        drop += ["SWOF", "PVTW"]
    for kw in drop:
        text = re.sub(r"^%s\n(?: .*\n)+" % kw, "", text, flags=re.M)
    if "WATER" not in phases:
        # gas-oil runs still need a saturation table for oil: SGOF covers it
        pass
    return text


def cut_index(case):
    """for the 'cut' flavour the restart step must be a block boundary: the largest boundary <= n (>= 1)"""
    acc = 0
    best = None
    for bi, b in enumerate(case["blocks"]):
        acc += b["nsteps"]
        if acc <= case["n"]:
            best = (bi, acc)
    return best


def restart_step(case):
    if case["flavour"] == "cut":
        c = cut_index(case)
        if c is not None:
            return c[1]
        return case["blocks"][0]["nsteps"]
    return case["n"]


def deck_texts(case, root):
    """(base deck, restart deck).  root: path prefix of the restart files (absolute)"""
    nx, ny, nz = case["dims"]
    ncell = nx * ny * nz
    act = ["1"] * ncell
    for h in case["holes"]:
        act[h] = "0"
    grid_extra = "ACTNUM\n " + " ".join(act) + " /\n" if case["holes"] else ""
    rs = ""
    if case["fmt"]:
        rs += "FMTOUT\nFMTIN\n"
    if case["unif"]:
        rs += "UNIFOUT\nUNIFIN\n"
    phases = phase_list(case)
    head = "RPTRST\n BASIC=2 /\n"
    base = strip_tables(MG.prelude(case["unit"], rs, dims=case["dims"], phases=phases, grid_extra=grid_extra, schedule_head=head), phases)
    sched = "".join("".join(block_kws(case, b)) + block_time(case, b) for b in case["blocks"])
    n = restart_step(case)
    sol = "RESTART\n '%s' %d /\n" % (root, n)
    if case["flavour"] == "cut":
        acc = 0
        tail = []
        for b in case["blocks"]:
            if acc >= n:
                tail.append(b)
            acc += b["nsteps"]
        rsched = "".join("".join(block_kws(case, b)) + block_time(case, b) for b in tail)
        rst = strip_tables(MG.prelude(case["unit"], rs, dims=case["dims"], phases=phases, grid_extra=grid_extra, solution=sol,
                                      schedule_head=head), phases) + rsched
    else:
        rst = strip_tables(MG.prelude(case["unit"], rs, dims=case["dims"], phases=phases, grid_extra=grid_extra, solution=sol,
                                      schedule_head="SKIPREST\n" + head), phases) + sched
    return adapt_phases(case, base + sched), adapt_phases(case, rst), n


# ----------------------------------------------------------------------------------------------------------------
# simulator state
def hx(v):
    return float(v).hex()


def mk_rates(salt, tag, producer, inj_type, phases, zero=False):
    """surface rates in SI (m3/s); production negative, injection positive (the simulator's convention)"""
    r = {}
    for ph, key in (("OIL", "oil"), ("WATER", "wat"), ("GAS", "gas")):
        if ph not in phases:
            continue
        if zero:
            r[key] = 0.0
        elif producer:
            r[key] = 0.0 if U(salt, tag, key, "z") < 0.1 else -logu(salt, -6, -1, tag, key)
        else:
            inj = {IT_WATER: "wat", IT_GAS: "gas", IT_OIL: "oil"}.get(inj_type)
            r[key] = logu(salt, -6, -1, tag, key) if key == inj else 0.0
    if not zero and producer and r and all(v == 0.0 for v in r.values()):
        k0 = "oil" if "oil" in r else sorted(r)[0]
        r[k0] = -logu(salt, -6, -1, tag, k0, "nz")         # something flows
    return r


def mk_wells(case, S, salt, tag, final, half):
    """data::Wells for the schedule state S (structure reported by the library for that step)"""
    phases = phase_list(case)
    wells = {}
    shut_one = case.get("dyn_shut") and final
    for wi, W in enumerate(S["wells"]):
        t = (tag, W["name"])
        status = {ST_OPEN: "OPEN", ST_STOP: "STOP", ST_SHUT: "SHUT", ST_AUTO: "SHUT"}[W["status"]]
        if shut_one and status == "OPEN" and U(salt, t, "dynshut") < 0.4:
            status = "SHUT"
        conns = [c for c in W["conns"] if c["active"]]
        if status == "SHUT" and U(salt, t, "omit") < 0.3:
            continue            # simulators may not report shut wells at all
        flowing = status != "SHUT" and any(c["state"] == 1 for c in conns)
        producer = W["producer"]
        # a stopped well has no surface rates (and is under no control); its connections may still cross-flow
        w = {"status": status, "rates": {k: hx(v) for k, v in mk_rates(salt, t, producer, W["inj_type"], phases,
                                                                        zero=(not flowing or status == "STOP")).items()},
             "bhp": hx(logu(salt, 5, 7.7, t, "bhp")), "thp": hx(0.0 if U(salt, t, "thp0") < 0.3 else logu(salt, 5, 7.3, t, "thp")),
             "temperature": hx(273.15 + 100 * U(salt, t, "T")), "control": 0}
        # active control: one of the modes the well is constrained by
        if producer:
            modes = [mm for mm in (P_ORAT, P_WRAT, P_GRAT, P_LRAT, P_RESV, P_BHP, P_THP) if W["prod_controls"] & mm] or [P_BHP]
            if half == "B" and W["prod_cmode"] in (P_ORAT, P_WRAT, P_GRAT, P_LRAT, P_RESV, P_BHP, P_THP, P_GRUP):
                mode = W["prod_cmode"]
            else:
                mode = modes[int(U(salt, t, "cm") * len(modes))]
            if case["phases"] == "OW" and mode == P_GRAT:
                mode = P_BHP
            if case["phases"] == "OG" and mode in (P_WRAT, P_LRAT):
                mode = P_BHP
            w["cc"] = {"isProducer": True, "prod": mode, "inj": I_UNDEF}
        else:
            modes = [mm for mm in (I_RATE, I_RESV, I_BHP, I_THP) if W["inj_controls"] & mm] or [I_BHP]
            if half == "B" and W["inj_cmode"] in (I_RATE, I_RESV, I_BHP, I_THP, I_GRUP):
                mode = W["inj_cmode"]
            else:
                mode = modes[int(U(salt, t, "cm") * len(modes))]
            w["cc"] = {"isProducer": False, "prod": P_UNDEF, "inj": mode}
        w["conns"] = []
        for c in conns:
            ct = (t, c["index"])
            copen = flowing and c["state"] == 1
            cr = mk_rates(salt, ct, producer, W["inj_type"], phases, zero=not copen)
            if copen and half == "A" and U(salt, ct, "xflow") < (0.5 if status == "STOP" else 0.15):
                cr = {k: -v for k, v in cr.items()}          # cross flow in one connection
            w["conns"].append({"index": c["index"], "rates": {k: hx(v) for k, v in cr.items()},
                               "pressure": hx(logu(salt, 5, 7.7, ct, "p")), "reservoir_rate": hx(U(salt, ct, "rr") * 1e-2),
                               "cell_pressure": hx(logu(salt, 5, 7.7, ct, "cp")), "cell_sw": hx(U(salt, ct, "sw")),
                               "cell_sg": hx(U(salt, ct, "sg") * 0.3), "kh": c["Kh"],
                               # the simulator's connection transmissibility factor IS the schedule's (no rock compaction)
                               "trans": c["CF"]})
        if flowing and not any(any(float.fromhex(v) != 0 for v in c["rates"].values()) for c in w["conns"]):
            flowing = False
        w["segs"] = []
        if W["msw"]:
            for sn in W["segs"]:
                stg = (t, "seg", sn)
                sr = mk_rates(salt, stg, producer, W["inj_type"], phases, zero=not flowing)
                if flowing and producer and "oil" in sr and sr["oil"] == 0.0:
                    sr["oil"] = -logu(salt, -6, -1, stg, "oil2")      # keep the oil share away from exact zero
                w["segs"].append({"n": sn, "rates": {k: hx(v) for k, v in sr.items()}, "pressure": hx(logu(salt, 5, 7.7, stg, "p"))})
        w["_flowing"] = flowing
        w["_stopped"] = status == "STOP"
        wells[W["name"]] = w
    groups = {}
    for G in S["groups"]:
        groups[G["name"]] = {"prod": G["prod_cmode"] if G["prod_cmode"] in (1, 2, 4, 8, 32, 128) else 0,
                             "ginj": G.get("ginj", 0), "winj": G.get("winj", 0)}
    return wells, groups


def wire_wells(wells):
    return {n: {k: v for k, v in w.items() if not k.startswith("_")} for n, w in wells.items()}


SOL_MENU = [("PRESSURE", "pressure", 5, 7.7), ("SWAT", "identity", -3, 0), ("SGAS", "identity", -3, 0), ("RS", "gas_oil_ratio", 0, 2.5),
            ("RV", "oil_gas_ratio", -6, -3), ("TEMP", "temperature", None, None)]
EXTRA_SOL_MENU = [("SOMAX", "identity", -3, 0, "RESTART_SOLUTION"), ("PCSWM_OW", "pressure", 3, 6, "RESTART_OPM_EXTENDED"),
                  ("KRNSW_OW", "identity", -3, 0, "RESTART_OPM_EXTENDED"), ("RSSAT", "gas_oil_ratio", 0, 2.5, "RESTART_AUXILIARY"),
                  ("PBUB", "pressure", 5, 7.5, "RESTART_AUXILIARY"), ("1OVERBO", "oil_inverse_formation_volume_factor", -0.3, 0, "RESTART_AUXILIARY"),
                  ("DENO", "density", 2.5, 3, "RESTART_AUXILIARY")]
EXTRA_MENU = [("OPMEXTRA", "identity", 1), ("THRESHPR", "pressure", 1), ("EXTRA1", "pressure", 5), ("EXTRA2", "liquid_surface_rate", 3),
              ("EXTRA3", "length", 7), ("EXTRA4", "identity", 4)]
MEASURE_ALIASES = {"oil_inverse_formation_volume_factor": "oil_inverse_formation_volume_factor"}


def mk_solution(case, nactive, salt):
    phases = phase_list(case)
    sols = []
    for (key, meas, lo, hi) in SOL_MENU:
        if key in ("SGAS", "RS", "RV") and "GAS" not in phases:
            continue
        if key == "SWAT" and "WATER" not in phases:
            continue
        if key == "TEMP":
            data = [273.15 + 150 * U(salt, key, i) for i in range(nactive)]
        else:
            data = [logu(salt, lo, hi, key, i) for i in range(nactive)]
        if key in ("SWAT", "SGAS") and nactive > 1:
            data[0] = 0.0
            data[-1] = 1.0
        sols.append({"key": key, "measure": meas, "target": "RESTART_SOLUTION", "data": data})
    k0 = int(U(salt, "xsol") * len(EXTRA_SOL_MENU))
    for j in range(case["nextra_sol"]):
        key, meas, lo, hi, tgt = EXTRA_SOL_MENU[(k0 + j) % len(EXTRA_SOL_MENU)]
        if meas is None:
            sols.append({"key": key, "measure": "identity", "target": tgt,
                         "idata": [int(U(salt, key, i) * 2 ** 32) - 2 ** 31 for i in range(nactive)]})
        else:
            sols.append({"key": key, "measure": meas, "target": tgt, "data": [logu(salt, lo, hi, key, i) for i in range(nactive)]})
    if quirk_on(case, "int_array"):
        sols.append({"key": "FIPNUMX", "measure": "identity", "target": "RESTART_SOLUTION",
                     "idata": [int(U(salt, "FIPNUMX", i) * 2 ** 32) - 2 ** 31 for i in range(nactive)]})
    extras = []
    k0 = int(U(salt, "xtra") * len(EXTRA_MENU))
    for j in range(case["nextra"]):
        key, meas, n = EXTRA_MENU[(k0 + j) % len(EXTRA_MENU)]
        if key == "THRESHPR":
            continue
        if key == "OPMEXTRA":
            data = [86400.0 * (1 + int(U(salt, key) * 30))]
        else:
            data = [logu(salt, 0, 6, key, i) for i in range(n)]
        extras.append({"key": key, "measure": meas, "data": data})
    return sols, extras


# ----------------------------------------------------------------------------------------------------------------
# tolerances
def unit_of(case, measure):
    f, off = RU.measure(case["unit"], measure)
    return f, off


def tol_array(case, measure, v_si, as_float):
    """allowed |loaded - saved| (SI) for one value of a solution / extra array.
    The value is converted to deck units u = v/f - off' (one rounding each for the multiplication and the offset),
    stored as float (relative half ulp 2^-24 of |u|) unless double output, printed with 8 (REAL) / 14 (DOUB)
    significant digits in formatted files (relative 5e-8 / 5e-14 of |u|, and for REAL one more rounding to float on
    reading: 2^-24), and converted back (two more roundings).  All relative errors are relative to the deck-unit
    value u, which matters for temperatures (offset)."""
    f, off = unit_of(case, measure)
    u = (v_si - off) / f
    rel = 4 * 2.0 ** -52          # four double roundings of the two conversions (2 ulp each way, generous)
    if as_float:
        rel += EPS32
        if case["fmt"]:
            rel += 5.0e-8 * (1 + 1e-6) + EPS32
    elif case["fmt"]:
        rel += 5.0e-14 * (1 + 1e-6)
    # the offset is added/subtracted in SI or deck units depending on the implementation: allow ulps of both magnitudes
    return rel * abs(u) * f + 4 * 2.0 ** -52 * (abs(v_si) + abs(off))


def tol_doub(case, v_si, scale=None):
    """XWEL / XCON / RSEG / XGRP items are always DOUB: 4 ulp for the two unit conversions (+ 14 digits when formatted)"""
    rel = 4 * 2.0 ** -52 + (5.0e-14 * (1 + 1e-6) if case["fmt"] else 0.0)
    return rel * abs(v_si if scale is None else scale)


IGNORE_KNOWN = set(k for k in os.environ.get("VERIF_C05_IGNORE_KNOWN", "").split(",") if k)


# ----------------------------------------------------------------------------------------------------------------
class C05(Check):
    ID = "C05"
    PROBE_GROUP = "restart"
    PROBE_ENV = {"OMP_NUM_THREADS": "1"}
    RULE = ("Curated models (grid 2..5 x 2..5 x 2..4 with inactive cells in well-free columns; OWG, and in half A also OW / OG; METRIC, "
            "FIELD, LAB, PVT-M; FMTOUT x UNIFOUT x write_double; restart written by RestartIO::save or EclipseIO::writeTimeStep, loaded by "
            "RestartIO::load or EclipseIO::loadRestart) with 2..4 schedule blocks over WELSPECS COMPDAT WCONPROD WCONINJE WCONHIST WCONINJH "
            "WELOPEN WELTARG WEFAC GEFAC GRUPTREE GCONPROD GCONINJE WGRUPCON WLIST WTEST WECON WELSEGS/COMPSEGS WSEGVALV BRANPROP/NODEPROP UDQ "
            "(ASSIGN/DEFINE/UNITS, UDQ-valued well and group limits) ACTIONX and the misc set; restart step n anywhere in the run; restart "
            "deck = full deck + RESTART + SKIPREST, or the deck cut at the restart step.  The run is driven like a simulator: "
            "out::Summary::eval and UDQConfig::eval at the end of every report step 1..n with a data::Wells state consistent with the "
            "schedule state of that step (open wells flow through their open connections, connection transmissibility = schedule CF, "
            "production negative, active control among the well's constraints), Action::State::add_run.  Half A: solution/extra arrays, "
            "rates/bhp/thp/control of flowing wells, connection and segment rates/pressures, W/G/F cumulative totals, UDQ values, ACTIONX run "
            "records must come back (exact for double unformatted identity-unit data, else single precision / 14 digits / 4 ulp of the unit "
            "round trip).  Half B: the restart-relevant projection (named attributes read through public getters; see NOT_CLAIMED in "
            "checks/c05.py for what is left out and why) of states n.. of Schedule(deck+RESTART, &rst_state) equals that of the original "
            "Schedule, REAL-stored items to 2^-23, DOUB-stored to 8 ulp.  Non-trivial: producer and injector present and (non-METRIC or "
            "formatted or MSW); in half B additionally a well keyword after the restart step.  Distinct by deck text x flavour x salt.")
    ASSUMPTIONS = ["the simulator state is schedule-consistent (see RULE); nothing is asserted for wells that do not flow, for well "
                   "temperature, guide rates and filtrate data, for the active control of stopped wells",
                   "segment phase rates have one sign per segment (RSEG stores a total and two fractions)",
                   "half B compares limits/targets as evaluated by Well::productionControls/injectionControls and "
                   "Group::productionControls/injectionControls against one summary state, constraint by constraint; UDQ-valued limits by name",
                   "shapes that hit a recorded finding (wells without any control keyword, report times off midnight, DRVDT without DRSDT, "
                   "re-run actions, integer solution arrays, zero rate limits) are generated in about 1 case in 3 only, one at a time",
                   "half B uses three-phase decks only; GCONSALE is left out of half B",
                   "aquifers, tracers, polymer/foam wells, LGR, VFP tables, gas lift are not generated"]
    EXAMPLES = {"quick": 500, "thorough": 7000}
    MIN_EVALS = {"quick": 3000, "thorough": 40000}
    TIME_CAP = {"quick": 170, "thorough": 1150}
    LEVEL_TEXT = ("Generated-input search with a round-trip oracle (state saved = state loaded, tolerance by storage class and unit "
                  "system from an independent unit table) and an equivalence oracle between the original and the restarted schedule "
                  "(named-attribute projection, starting from upstream's Schedule::cmp list and extended to the statement's list); every "
                  "recorded finding is keyed by root cause and the search continues behind it (all other differences of the same case are "
                  "still checked).")
    LEVEL_NOTE = ("Trusted: vlib/refunits.py for unit factors, harness/probe/restart_dump.hpp as the list of public queries, the probe's "
                  "simulator driver (Summary::eval + UDQ eval every step).  Not reached: aquifer/tracer/LGR/VFP/gas-lift restart data; group "
                  "UDQs; attributes listed in NOT_CLAIMED.")
    TECHNIQUE = "property-based testing: generated models and simulator states, write/load round-trip oracle + schedule equivalence"

    def strategy(self, tier):
        return st.sampled_from(["A", "B"]).flatmap(case_strategy)

    # ------------------------------------------------------------------------------------------------------------
    def classify(self, case):
        labels = [case["half"] + ":unit:" + case["unit"], case["half"] + ":" + ("fmt" if case["fmt"] else "unfmt"),
                  case["half"] + ":" + ("unif" if case["unif"] else "multi"), case["half"] + ":" + ("double" if case["double"] else "float"),
                  case["half"] + ":phases:" + case["phases"], case["half"] + ":flavour:" + case["flavour"],
                  case["half"] + ":via:" + case["via"]]
        if case["half"] == "A":
            labels.append("A:load-schedule:" + case.get("load_sched", "rst"))
        txt = "".join("".join(b["kws"]) for b in case["blocks"])
        for kw, lab in (("WELSEGS\n", "MSW"), ("UDQ\n", "UDQ"), ("ACTIONX\n", "ACTIONX"), ("WLIST\n", "WLIST"), ("NODEPROP\n", "network"),
                        ("GRUPTREE\n", "GRUPTREE"), ("WCONHIST\n", "WCONHIST"), ("GEFAC\n", "GEFAC"), ("WEFAC\n", "WEFAC")):
            if kw in txt:
                labels.append(case["half"] + ":has:" + lab)
        if case["holes"]:
            labels.append(case["half"] + ":inactive-cells")
        if msw_interleaved(txt):
            labels.append(case["half"] + ":msw:interleaved-numbering")
        if re.search(r"^ \d+ \d+ [2-9] \d+ ", txt, re.M):
            labels.append(case["half"] + ":msw:laterals")
        nontriv = ("'P" in txt and "'I" in txt) and (case["unit"] != "METRIC" or case["fmt"] or "WELSEGS\n" in txt)
        if case["half"] == "B":
            # a keyword after the restart step names a well
            n = restart_step(case)
            acc, later = 0, ""
            for b in case["blocks"]:
                if acc >= n:
                    later += "".join(b["kws"])
                acc += b["nsteps"]
            modifies = bool(re.search(r"'[PI]\d'", later))
            labels.append("B:later-keyword-names-a-well" if modifies else "B:no-later-well-keyword")
            nontriv = nontriv and modifies
        for qn in sorted(QUIRK_KEY):
            if quirk_on(case, qn):
                labels.append(case["half"] + ":quirk:" + qn)
        return nontriv, sha([case["half"], case["unit"], case["fmt"], case["unif"], case["double"], txt, case["n"], case["salt"]], 16), labels

    def floors(self, tier):
        # vacuity guards: every flavour of the statement's quantifier must actually occur
        return {"A:unit:FIELD": 0.03, "A:unit:LAB": 0.03, "A:unit:PVT-M": 0.03, "A:fmt": 0.05, "A:unif": 0.05, "A:double": 0.05,
                "A:has:MSW": 0.05, "A:msw:interleaved-numbering": 0.03, "B:msw:interleaved-numbering": 0.03, "A:has:UDQ": 0.02, "A:has:ACTIONX": 0.02, "A:compared:flowing-producer": 0.03,
                "A:compared:flowing-injector": 0.03, "A:compared:segments": 0.05, "B:unit:FIELD": 0.03, "B:fmt": 0.05,
                "B:has:MSW": 0.05, "B:has:UDQ": 0.02, "B:has:ACTIONX": 0.02, "B:later-keyword-names-a-well": 0.1,
                "B:compared:states": 0.2}

    def sample_view(self, case):
        v = {k: case[k] for k in ("half", "unit", "phases", "fmt", "unif", "double", "n", "flavour", "via", "dims", "holes")}
        v["schedule"] = "".join("".join(b["kws"]) + b["time"] for b in case["blocks"])
        return v

    # ------------------------------------------------------------------------------------------------------------
    def prepare_run(self, case, ctx):
        """common part of both halves: decks, structure of the states, evaluations, request"""
        P = ctx.P
        d = os.path.join(ctx.tmp, "c05")
        root = os.path.join(d, "BASE")
        for fn in (os.listdir(d) if os.path.isdir(d) else []):
            p = os.path.join(d, fn)
            if os.path.isfile(p):
                os.unlink(p)
        base, rst, n = deck_texts(case, root)
        # like a simulator: summary and UDQ evaluation at the end of every report step 1..n (a DEFINE needs its summary
        # vectors, an ASSIGN is pending only in the step that holds it)
        steps = list(range(1, n + 1))
        info = P.call("rst_info", text=base, steps=steps)
        if info["nsteps"] != sum(b["nsteps"] for b in case["blocks"]) + 1:
            raise RuntimeError("harness: step count %r" % info["nsteps"])
        structs = dict(zip(steps, info["structs"]))
        S = structs[n]
        secs = [hexf(x) for x in S["seconds"]]
        evals = []
        salt = case["salt"]
        for rs in steps:
            if rs == n and case["substep"]:
                w, g = mk_wells(case, structs[rs], salt, ("sub", rs), False, case["half"])
                evals.append({"report_step": rs, "elapsed": 0.5 * (secs[rs - 1] + secs[rs]), "wells": wire_wells(w), "groups": g})
            w, g = mk_wells(case, structs[rs], salt, ("ev", rs), rs == n, case["half"])
            evals.append({"report_step": rs, "elapsed": secs[rs], "wells": wire_wells(w), "groups": g})
        final_wells = w
        sols, extras = mk_solution(case, S["nactive"], salt)
        runs = []
        for j in range(min(case["nruns"], 3) if S["actions"] else 0):
            a = S["actions"][int(U(salt, "act", j) * len(S["actions"]))]
            if not quirk_on(case, "action_reruns") and any(r0["name"] == a for r0 in runs):
                continue        # an action that ran twice comes back with run count 1 (known finding)
            names = [W["name"] for W in S["wells"] if U(salt, "actw", j, W["name"]) < 0.5]
            runs.append({"name": a, "time": S["start"] + int(secs[n - 1]) + 3600 * (j + 1), "wells": names})
        req = dict(text=base, rst_text=rst, dir=d, base="BASE", step=n, evals=evals, udq_eval=True, action_runs=runs,
                   solution=[dict(s, data=[hx(v) for v in s["data"]]) if "data" in s else s for s in sols],
                   extra=[dict(e, data=[hx(v) for v in e["data"]]) for e in extras],
                   write_double=case["double"],
                   # EclipseIO::writeTimeStep only writes a restart file at steps the deck's RPTRST asks for
                   via=case["via"] if S["write_rst"][n] else "save")
        return req, S, final_wells, sols, extras, runs, n

    def check(self, case, ctx):
        try:
            if case["half"] == "A":
                return self.check_A(case, ctx)
            return self.check_B(case, ctx)
        except LibError as e:
            if os.environ.get("VERIF_DEBUG"):
                with open("/tmp/c05_rej_%s.json" % sha(case), "w") as f:
                    json.dump({"case": case, "error": str(e)}, f)
            raise

    # ------------------------------------------------------------------------------------------------------------
    def check_A(self, case, ctx):
        P = ctx.P
        req, S, wells, sols, extras, runs, n = self.prepare_run(case, ctx)
        int_keys = [s["key"] for s in sols if "idata" in s]
        load_keys = [{"key": s["key"], "measure": s["measure"], "required": True} for s in sols]
        load_extra = [{"key": e["key"], "measure": e["measure"], "required": True} for e in extras]
        req.update(load_keys=load_keys, load_extra=load_extra, load_via=case["load_via"], load_sched=case.get("load_sched", "rst"))
        r = P.call("rst_roundtrip", **req)
        if "save_error" in r:
            return self.save_error(case, r["save_error"], req["text"])
        if "rst_error" in r:
            return self.rst_error(case, r["rst_error"], S, n)
        return self.pick(self.oracle_A(case, r, S, wells, sols, extras, runs, n, ctx))

    def known_key(self, case, viol):
        # VERIF_C05_IGNORE_KNOWN=key1,key2: treat those recorded findings as absent (used to verify a proposed fix: the
        # key must then never be seen and its regression input must pass strictly)
        k = viol.get("key")
        return (k + "#strict") if k in IGNORE_KNOWN else k

    def pick(self, gen):
        """first violation whose key is not a recorded finding, else the first recorded one (so that a recorded finding
        does not hide what lies behind it in the same case)"""
        from vlib.runner import load_known
        known = {e["key"] for e in load_known(self.ID) if e.get("status") == "known"} - IGNORE_KNOWN
        first = None
        if os.environ.get("C05_HISTO"):
            gen = list(gen)         # triage aid: walk everything so that the difference histogram is complete
        for k, v in enumerate(gen):
            if v.get("key") not in known:
                return v
            if first is None:
                first = v
            if k > 200:
                break
        return first

    def save_error(self, case, err, text):
        what = err["what"]
        key = None
        if "Only valid if DRSDT is active" in what and "DRVDT\n" in text and "DRSDT\n" not in text:
            key = "A:save-throws-drvdt-without-drsdt"
        return {"rule": "%s: writing the restart file throws for a deck the library accepted" % case["half"],
                "detail": {"error": what[:600], "restart_step": restart_step(case), "unit": case["unit"]}, "key": key}

    def rst_error(self, case, err, S, n):
        """the library accepted the deck and wrote the file itself, then cannot continue from it"""
        what = err["what"]
        key = None
        if re.search(r"Requisite restart vector 'FIPNUMX' is not available", what):
            key = "A:int-solution-array"
        if re.search(r"Cannot convert integer value -10 to (producer|injector) control mode", what):
            key = "B:well.controlMode-undefined-throws"
        if re.search(r"Problem with keyword WLIST.*Invalid well list", what, re.S):
            key = "B:wlists"        # a list lost by the restart (well in two lists) is used by a later WLIST ADD/DEL/MOV
        secs = [hexf(x) for x in S["seconds"]]
        if re.search(r"In a restarted simulation using SKIPREST, the (TSTEP|DATES) keyword must have", what) and secs[n] % 86400 != 0:
            key = "B:restart-time-of-day-dropped"
        if key is None and secs[n] % 86400 != 0:
            # the restart time was truncated to midnight: the report steps of the restarted deck are shifted, later
            # keywords then meet a schedule state they were not written for
            key = "B:restart-time-of-day-dropped"
        return {"rule": "%s: the restarted run cannot be set up from the restart file the library wrote (%s phase)" % (case["half"], err["phase"]),
                "detail": {"error": what[:600], "restart_step": restart_step(case), "flavour": case["flavour"], "unit": case["unit"],
                           "restart_time_seconds_after_midnight": secs[n] % 86400,
                           "wells_without_control_mode": [W["name"] for W in S["wells"] if (W["prod_cmode"] if W["producer"] else W["inj_cmode"]) in (P_UNDEF, I_UNDEF, 0)]},
                "key": key}

    def oracle_A(self, case, r, S, wells, sols, extras, runs, n, ctx):
        def V(rule, detail, key=None):
            return {"rule": "A: " + rule, "detail": detail, "key": key}

        L = r["loaded"]
        as_float = not case["double"]
        # 1. solution arrays
        for s in sols:
            got = L["solution"].get(s["key"])
            if "idata" in s:
                if got is None or got.get("idata") != s["idata"]:
                    yield V("integer solution array differs after the round trip",
                            {"array": s["key"], "saved": s["idata"][:8], "loaded": got and (got.get("idata") or got.get("data"))[:8]},
                            "A:int-solution-array")
                continue
            if got is None:
                yield V("requested solution array missing after load", s["key"])
                continue
            g = [hexf(x) for x in got["data"]]
            if len(g) != len(s["data"]):
                yield V("solution array length", [s["key"], len(s["data"]), len(g)])
                continue
            for i, (a, b) in enumerate(zip(s["data"], g)):
                exact = case["double"] and not case["fmt"] and s["measure"] == "identity"
                tol = 0.0 if exact else tol_array(case, s["measure"], a, as_float)
                if not abs(a - b) <= tol:
                    yield V("solution array value differs after the round trip",
                             {"array": s["key"], "measure": s["measure"], "cell": i, "saved": a, "loaded": b, "tolerance": tol,
                              "double": case["double"], "formatted": case["fmt"], "unit": case["unit"]})
        # 2. extra vectors: always written as DOUB
        for e in extras:
            got = L["extra"].get(e["key"])
            if got is None:
                yield V("requested extra vector missing after load", e["key"])
                continue
            g = [hexf(x) for x in got]
            if len(g) != len(e["data"]):
                yield V("extra vector length", [e["key"], len(e["data"]), len(g)])
                continue
            for i, (a, b) in enumerate(zip(e["data"], g)):
                exact = not case["fmt"] and e["measure"] == "identity"
                tol = 0.0 if exact else tol_array(case, e["measure"], a, False)
                if not abs(a - b) <= tol:
                    yield V("extra vector value differs after the round trip",
                             {"vector": e["key"], "measure": e["measure"], "index": i, "saved": a, "loaded": b, "tolerance": tol,
                              "unit": case["unit"]}, "A:extra-" + e["key"] if e["key"] == "OPMEXTRA" else None)
        # 3. wells
        phases = phase_list(case)
        pk = [k for ph, k in (("OIL", "oil"), ("WATER", "wat"), ("GAS", "gas")) if ph in phases]
        for W in S["wells"]:
            name = W["name"]
            w = wells.get(name)
            if w is None or not w["_flowing"]:
                continue                      # nothing is asserted for wells that do not flow
            lw = L["wells"].get(name)
            if lw is None:
                yield V("flowing well missing after load", name)
                continue
            where = {"well": name, "unit": case["unit"], "formatted": case["fmt"], "producer": W["producer"]}
            ctx.label("A:compared:flowing-" + ("stopped-well" if w["_stopped"] else "producer" if W["producer"] else "injector"))
            ctx.label("A:compared:connections", len(w["conns"]))
            if W["msw"]:
                ctx.label("A:compared:segments", len(w["segs"]))
            for k in pk:
                a = float.fromhex(w["rates"][k])
                if k not in lw["rates"]:
                    yield V("well rate not restored", dict(where, phase=k))
                    continue
                b = hexf(lw["rates"][k])
                if not abs(a - b) <= tol_doub(case, a):
                    yield V("well rate differs after the round trip", dict(where, phase=k, saved=a, loaded=b), "A:well-rate")
            for q in ("bhp", "thp"):
                a = float.fromhex(w[q])
                b = hexf(lw[q])
                if not abs(a - b) <= tol_doub(case, a):
                    yield V("well %s differs after the round trip" % q, dict(where, saved=a, loaded=b), "A:well-" + q)
            cc, lc = w["cc"], lw["cc"]
            if w["_stopped"]:
                pass            # a stopped well is under no control mode
            elif bool(lc["isProducer"]) != cc["isProducer"] or (lc["prod"] if cc["isProducer"] else lc["inj"]) != (cc["prod"] if cc["isProducer"] else cc["inj"]):
                yield V("active control differs after the round trip", dict(where, saved=cc, loaded=lc), "A:well-control")
            lconns = {c["index"]: c for c in lw["conns"]}
            for c in w["conns"]:
                lc = lconns.get(c["index"])
                if lc is None:
                    yield V("connection missing after load", dict(where, connection=c["index"]))
                    continue
                for k in pk:
                    a = float.fromhex(c["rates"][k])
                    b = hexf(lc["rates"].get(k, "0x0p+0"))
                    if not abs(a - b) <= tol_doub(case, a):
                        yield V("connection rate differs after the round trip", dict(where, connection=c["index"], phase=k, saved=a, loaded=b),
                                 "A:conn-rate")
                a = float.fromhex(c["pressure"])
                b = hexf(lc["pressure"])
                if not abs(a - b) <= tol_doub(case, a):
                    yield V("connection pressure differs after the round trip", dict(where, connection=c["index"], saved=a, loaded=b),
                             "A:conn-pressure")
            if W["msw"]:
                lsegs = {sg["n"]: sg for sg in lw["segs"]}
                fl, _ = unit_of(case, "liquid_surface_rate")
                fg, _ = unit_of(case, "gas_surface_rate")
                for sg in w["segs"]:
                    ls = lsegs.get(sg["n"])
                    if ls is None:
                        yield V("segment missing after load", dict(where, segment=sg["n"]))
                        continue
                    # RSEG stores a total flow T = qo + qw/10 + qg/1000 (deck units) and the water and gas fractions of it;
                    # every phase rate comes back as a product with T: the absolute error of phase p is a few ulp of T
                    # scaled by the phase's renormalisation constant (1, 10, 1000)
                    rates = {k: float.fromhex(sg["rates"][k]) for k in pk}
                    T = abs(rates.get("oil", 0.0)) / fl + abs(rates.get("wat", 0.0)) / fl / 10.0 + abs(rates.get("gas", 0.0)) / fg / 1000.0
                    for k in pk:
                        a = rates[k]
                        b = hexf(ls["rates"].get(k, "0x0p+0"))
                        scale = T * {"oil": fl, "wat": 10.0 * fl, "gas": 1000.0 * fg}[k]
                        if not abs(a - b) <= 4 * tol_doub(case, None, scale):
                            key = "A:seg-gas-rate-field" if (k == "gas" and case["unit"] == "FIELD") else "A:seg-rate"
                            yield V("segment rate differs after the round trip", dict(where, segment=sg["n"], phase=k, saved=a, loaded=b,
                                                                                     all_saved=rates), key)
                    a = float.fromhex(sg["pressure"])
                    b = hexf(ls["pressure"])
                    if not abs(a - b) <= tol_doub(case, a):
                        yield V("segment pressure differs after the round trip", dict(where, segment=sg["n"], saved=a, loaded=b), "A:seg-pressure")
        # 4. cumulative totals: the summary state holds deck-unit values; the file stores them as DOUB unconverted
        ss, ls = r["saved"]["smry"], L["smry"]
        tot = re.compile(r"^(W|G|F)(O|W|G|V)(P|I)T(H|S|F)?(:|$)")
        for k, v in ss.items():
            if not tot.match(k):
                continue
            a = hexf(v)
            if a != 0.0:
                ctx.label("A:compared:nonzero-" + k[0] + "-totals")
            if k not in ls:
                if a == 0.0:
                    continue
                yield V("cumulative total not restored", {"vector": k, "saved": a}, "A:total-" + re.sub(r":.*", "", k))
            b = hexf(ls[k])
            # derived totals (xOPTF = xOPT - xOPTS, ...) are recomputed on load: allow ulps of the operands
            if not abs(a - b) <= tol_doub(case, max(abs(a), 1.0) if k[4:5] == "F" else a):
                yield V("cumulative total differs after the round trip", {"vector": k, "saved": a, "loaded": b, "unit": case["unit"]},
                         "A:total-" + re.sub(r":.*", "", k))
        # 5. UDQ values
        su, lu = r["saved"]["udq"]["values"], L["udq"]["values"]
        for name, sv in su.items():
            lv = lu.get(name)
            ctx.label("A:compared:udq-" + ("field" if "has" in sv else "well" if "wells" in sv else "group"))
            if "has" in sv and sv["has"]:
                ctx.label("A:compared:udq-field-defined")
            if "wells" in sv and any(x is not None for x in sv["wells"].values()):
                ctx.label("A:compared:udq-well-some-defined")
            if lv is None:
                yield V("UDQ unknown after restart", name, "A:udq-missing")
                continue
            for kind in ("wells", "groups"):
                if kind in sv:
                    for ent, a in sv[kind].items():
                        b = lv.get(kind, {}).get(ent)
                        if (a is None) != (b is None):
                            yield V("UDQ defined/undefined pattern differs after the round trip",
                                     {"udq": name, kind[:-1]: ent, "saved": a and hexf(a), "loaded": b and hexf(b)}, "A:udq-pattern")
                        if a is not None and not abs(hexf(a) - hexf(b)) <= tol_doub(case, hexf(a)):
                            yield V("UDQ value differs after the round trip", {"udq": name, kind[:-1]: ent, "saved": hexf(a), "loaded": hexf(b)},
                                     "A:udq-value")
            if "has" in sv:
                if bool(sv["has"]) != bool(lv.get("has")):
                    yield V("UDQ defined/undefined pattern differs after the round trip",
                             {"udq": name, "saved_defined": sv["has"], "loaded_defined": lv.get("has"),
                              "saved": hexf(sv["value"]) if sv["has"] else None}, "A:udq-pattern")
                if sv["has"] and not abs(hexf(sv["value"]) - hexf(lv["value"])) <= tol_doub(case, hexf(sv["value"])):
                    yield V("UDQ value differs after the round trip", {"udq": name, "saved": hexf(sv["value"]), "loaded": hexf(lv["value"])},
                             "A:udq-value")
        # 6. ACTIONX run records
        sa, la = r["saved"]["actions"], L["actions"]
        for name, a in sa.items():
            b = la.get(name)
            ctx.label("A:compared:action-run-count-%d" % min(a["run_count"], 2))
            if b is None:
                yield V("action unknown after restart", name, "A:action-missing")
                continue
            if a["run_count"] != b["run_count"]:
                yield V("ACTIONX run count differs after the round trip", {"action": name, "saved": a["run_count"], "loaded": b["run_count"]},
                         "A:action-run-count")
            # the last run time is stored in SACT (REAL) as elapsed time in deck units: single precision of the elapsed
            # time (+ 8 digits when formatted), truncated to whole seconds on the way back
            el = abs(a["run_time"] - S["start"]) if a["run_count"] else 0
            if a["run_count"] and abs(a["run_time"] - b["run_time"]) > el * (2 * EPS32 + (5.0e-8 if case["fmt"] else 0.0)) + 1:
                yield V("ACTIONX last run time differs after the round trip", {"action": name, "saved": a["run_time"], "loaded": b["run_time"]},
                         "A:action-run-time")
        return

    # ------------------------------------------------------------------------------------------------------------
    def check_B(self, case, ctx):
        P = ctx.P
        req, S, wells, sols, extras, runs, n = self.prepare_run(case, ctx)
        nsteps = len(S["seconds"])
        steps = list(range(n, nsteps))
        if len(steps) > 4:
            steps = steps[:3] + [steps[-1]]
        req["steps"] = steps
        r = P.call("rst_sched", **req)
        if "save_error" in r:
            return self.save_error(case, r["save_error"], req["text"])
        if "rst_error" in r:
            return self.rst_error(case, r["rst_error"], S, n)
        return self.pick(self.oracle_B(case, r, steps, n, ctx))

    def oracle_B(self, case, r, steps, n, ctx):
        if r["rst_nsteps"] != r["base_nsteps"]:
            off = hexf(r["seconds_base"][n]) % 86400
            yield {"rule": "B: number of report steps of the restarted schedule",
                   "detail": {"original": r["base_nsteps"], "restarted": r["rst_nsteps"], "restart_time_seconds_after_midnight": off},
                   "key": "B:restart-time-of-day-dropped" if off != 0 else "B:nsteps"}
            return
        sb, sr = r["seconds_base"], r["seconds_rst"]
        for j in range(n, len(sb)):
            if sb[j] != sr[j]:
                off = hexf(sb[n]) % 86400
                yield {"rule": "B: elapsed time of report step %d differs in the restarted schedule" % j,
                       "detail": {"base": hexf(sb[j]), "restarted": hexf(sr[j]), "restart_time_seconds_after_midnight": off},
                       "key": "B:restart-time-of-day-dropped" if off != 0 and abs(hexf(sb[j]) - hexf(sr[j]) - off) < 1 else "B:seconds"}
                break
        seen = set()
        for j, a, b in zip(steps, r["base"], r["rst"]):
            a, b = norm_state(a), norm_state(b)
            ctx.label("B:compared:states")
            ctx.label("B:compared:wells", len(a["wells"]))
            ctx.label("B:compared:groups", len(a["groups"]))
            for path, x, y in diff_states(a, b, case):
                attr = attr_of(path)
                ctx.label("B:diff:" + attr) if os.environ.get("C05_HISTO") else None
                if attr in NOT_CLAIMED or attr.split(".")[0] in NOT_CLAIMED:
                    continue
                if x == "<no control keyword yet>":
                    continue            # the original well has no control keyword: nothing to be equivalent to
                if attr in seen:
                    continue
                seen.add(attr)
                yield {"rule": "B: attribute %s of the restarted schedule differs from the original run at report step %d (restart at %d)" % (attr, j, n),
                       "detail": {"where": path, "original": x, "restarted": y, "unit": case["unit"], "formatted": case["fmt"],
                                  "flavour": case["flavour"]},
                       "key": key_B(attr, x, y, case, a, path, b)}


# ----------------------------------------------------------------------------------------------------------------
# half B: comparison of the two dumps
HEXRE = re.compile(r"^-?0x[0-9a-f.]+p[+-]\d+$")
DOUB_ATTRS = ("well.seg.", "udq.", "network.")      # stored in DOUB arrays (RSEG, DUDx, RNODE/RBRAN); everything else REAL


def attr_of(path):
    """wells/P1/conn/2/CF -> well.conn.CF ; groups/G1/inj/WATER/cmode -> group.inj.cmode"""
    p = path.strip("/").split("/")
    if p[0] == "wells" and len(p) > 1:
        rest = [q for q in p[2:] if not q.isdigit() and not re.match(r"^\d+,\d+,\d+$", q)]
        return ".".join(["well"] + rest) if rest else "well"
    if p[0] == "groups" and len(p) > 1:
        rest = [q for q in p[2:] if not q.isdigit() and q not in ("WATER", "GAS", "OIL")]
        return ".".join(["group"] + rest) if rest else "group"
    if p[0] == "udq" and len(p) > 2 and p[1] == "items":
        return ".".join(["udq"] + [q for q in p[3:] if not q.isdigit()][:1]) if len(p) > 3 else "udq.items"
    if p[0] == "actions" and len(p) > 1:
        return ".".join(["action"] + [q for q in p[2:] if not q.isdigit()][:1]) if len(p) > 2 else "action"
    if p[0] == "network" and len(p) > 2 and p[1] == "nodes":
        return ".".join(["network.node"] + [q for q in p[3:] if not q.isdigit()]) if len(p) > 3 else "network.node"
    return ".".join(q for q in p if not q.isdigit())


def num_close(x, y, attr, case):
    a, b = hexf(x), hexf(y)
    if a == b:
        return True
    if math.isnan(a) or math.isnan(b) or math.isinf(a) or math.isinf(b):
        return False
    if attr.endswith(".scalingFactor"):
        # an ICD's flow scaling factor is recomputed from the lengths of the well's connections whenever the schedule
        # touches the well again, and those come back from SCON (REAL): single precision, a few operations
        rel = 8 * 2.0 ** -23
    elif attr.startswith(DOUB_ATTRS):
        rel = 8 * 2.0 ** -52 + (5.0e-14 if case["fmt"] else 0.0)
    else:
        # REAL item: deck-unit value rounded to float (2^-24), 8 digits + another float rounding when formatted,
        # a few double roundings for the two unit conversions
        rel = 2.0 ** -23 + (5.0e-8 + 2.0 ** -24 if case["fmt"] else 0.0)
    return abs(a - b) <= rel * max(abs(a), abs(b))


def diff_states(a, b, case, path=""):
    """all differing leaves (path, original, restarted)"""
    if isinstance(a, dict) and isinstance(b, dict):
        for k in sorted(set(a) | set(b)):
            if k not in a or k not in b:
                yield path + "/" + k, a.get(k, "<absent>") if not isinstance(a.get(k), (dict, list)) else "<present>", \
                    b.get(k, "<absent>") if not isinstance(b.get(k), (dict, list)) else "<present>"
                continue
            yield from diff_states(a[k], b[k], case, path + "/" + k)
        return
    if isinstance(a, list) and isinstance(b, list):
        if len(a) != len(b):
            yield path + "/len", len(a), len(b)
            return
        for i, (u, v) in enumerate(zip(a, b)):
            yield from diff_states(u, v, case, "%s/%d" % (path, i))
        return
    if isinstance(a, str) and isinstance(b, str) and HEXRE.match(a) and HEXRE.match(b):
        if not num_close(a, b, attr_of(path), case):
            yield path, hexf(a), hexf(b)
        return
    if a != b:
        yield path, a, b


UDA_OF_LIMIT = {"oil_rate": "OilRate", "water_rate": "WaterRate", "gas_rate": "GasRate", "liquid_rate": "LiquidRate",
                "resv_rate": "ResVRate", "surface_rate": "surfaceInjectionRate", "reservoir_rate": "reservoirInjectionRate"}


def misassigned_uda_wells(a, b):
    """wells whose UDQ-valued limit moved to another well in the restarted state"""
    out = set()
    for side in ("prod_udq", "inj_udq"):
        lost = [(w, k, v) for w, W in a["wells"].items() for k, v in W.get(side, {}).items() if b["wells"].get(w, {}).get(side, {}).get(k) != v]
        for w2, W2 in b["wells"].items():
            for k, v in W2.get(side, {}).items():
                if a["wells"].get(w2, {}).get(side, {}).get(k) != v and any(k == k1 and v == v1 and w1 != w2 for w1, k1, v1 in lost):
                    out.add(w2)
                    out.update(w1 for w1, k1, v1 in lost if k1 == k and v1 == v)
    return out


def uda_producer_turned_injector(case, wn):
    uda = False
    for b in case.get("blocks", []):
        for k in b["kws"]:
            if k.startswith("WCONPROD\n '%s' " % wn) and re.search(r"'[FW]U_\w+'", k):
                uda = True
            if k.startswith(("WCONINJE\n '%s' " % wn, "WCONINJH\n '%s' " % wn)) and uda:
                return True
    return False


def weltarg_after_uda(case, wn):
    """WCONPROD / WCONINJE of well wn with a UDQ-valued item, later a WELTARG for the well (in any later keyword)"""
    uda = False
    for b in case.get("blocks", []):
        for k in b["kws"]:
            if k.startswith(("WCONPROD\n '%s' " % wn, "WCONINJE\n '%s' " % wn)) and re.search(r"'[FW]U_\w+'", k):
                uda = True
            if k.startswith("WELTARG\n '%s' " % wn) and uda:
                return True
    return False


def wlist_reentry(case):
    """does some well re-enter a well list it was a member of and left (DEL, MOV away, NEW without it) earlier, or is it
    deleted again from a list it has already left?  (both make WListManager's per-well list count go wrong)"""
    member, left = {}, set()
    for b in case.get("blocks", []):
        for k in b["kws"]:
            if not k.startswith("WLIST\n"):
                continue
            for rec in k.split("\n")[1:]:
                toks = re.findall(r"'([^']*)'", rec)
                if len(toks) < 2:
                    continue
                ln, op, ws = toks[0], toks[1], toks[2:]
                cur = member.setdefault(ln, set())
                if op == "NEW":
                    for w in cur - set(ws):
                        left.add((w, ln))
                    for w in ws:
                        if (w, ln) in left and w not in cur:
                            return True
                    member[ln] = set(ws)
                elif op == "ADD":
                    for w in ws:
                        if (w, ln) in left and w not in cur:
                            return True
                        cur.add(w)
                elif op == "DEL":
                    for w in ws:
                        if w in cur:
                            cur.discard(w)
                            left.add((w, ln))
                        elif (w, ln) in left:
                            return True         # deleted a second time: the stale entry is counted down again
                elif op == "MOV":
                    for w in ws:
                        for l2, mem in member.items():
                            if l2 != ln and w in mem:
                                mem.discard(w)
                                left.add((w, l2))
                        if (w, ln) in left and w not in cur:
                            return True
                        cur.add(w)
    return False


def key_B(attr, x, y, case, state=None, path="", other=None):
    if attr.startswith("well") and state is not None and other is not None:
        parts = path.strip("/").split("/")
        if len(parts) > 1 and "WHISTCTL\n" in "".join("".join(b0["kws"]) for b0 in case["blocks"]) and \
                state["wells"].get(parts[1], {}).get("producer") is False and other["wells"].get(parts[1], {}).get("producer") is True:
            return "B:whistctl-turns-injectors-into-producers"
        if len(parts) > 1 and parts[1] in misassigned_uda_wells(state, other):
            return "B:uda-applied-to-wrong-well"
    """stable finding key: the attribute, except where one root cause shows under several attributes"""
    mu = re.match(r"well\.(prod|inj)_udq\.\w+$", attr)
    if mu and x == "<absent>" and isinstance(y, str) and y != "<absent>":
        # the restarted run has a UDQ-valued limit the original run no longer has, on a well whose UDA limit was hit by WELTARG
        wname = path.strip("/").split("/")[1]
        if weltarg_after_uda(case, wname):
            return "B:uda-resurrected-by-weltarg-record"
    lim = re.match(r"well\.(prod|inj)Controls\.(oil_rate|water_rate|gas_rate|liquid_rate|resv_rate|surface_rate|reservoir_rate)$", attr)
    if isinstance(x, str) and HEXRE.match(x):
        x = hexf(x)
    if isinstance(y, str) and HEXRE.match(y):
        y = hexf(y)
    if lim and y == "<inactive>" and isinstance(x, float) and x == 0.0:
        return "B:well.zero-rate-limit-dropped"
    mh = re.match(r"well\.(prod|inj)Controls\.has$", attr)
    if mh and state is not None and x is True and y is False:
        parts = path.strip("/").split("/")
        c = state["wells"].get(parts[1], {}).get(mh.group(1) + "Controls", {})
        names = {v: k for k, v in (PROD_LIMITS if mh.group(1) == "prod" else INJ_LIMITS).items()}
        k = names.get(int(parts[-1]))
        if k and isinstance(c.get(k), str) and HEXRE.match(c[k]) and hexf(c[k]) == 0.0:
            return "B:well.zero-rate-limit-dropped"
    if lim and state is not None and other is not None:
        wname = path.strip("/").split("/")[1]
        side = lim.group(1) + "_udq"
        k = UDA_OF_LIMIT[lim.group(2)]
        if k in other["wells"].get(wname, {}).get(side, {}) and k not in state["wells"].get(wname, {}).get(side, {}):
            return "B:well.uda-stale-after-redefinition"
    if lim and state is not None:
        # the limit holds a UDQ name (on the original side) and yet the two sides evaluate differently: one side uses the
        # number a later WELTARG put into the same UDA
        wname = path.strip("/").split("/")[1]
        udq = state["wells"].get(wname, {}).get(lim.group(1) + "_udq", {})
        if UDA_OF_LIMIT[lim.group(2)] in udq:
            return "B:uda-limit-then-weltarg"
    if lim and isinstance(x, float) and isinstance(y, float) and x != 0 and y != 0 and case["unit"] != "METRIC":
        # original run converted the WELTARG value with METRIC factors (target defaulted in WCONPROD): ratio of the unit factors
        for meas in ("liquid_surface_rate", "gas_surface_rate", "rate"):
            ratio = RU.measure("METRIC", meas)[0] / RU.measure(case["unit"], meas)[0]
            if abs(x / y / ratio - 1) < 1e-5:
                return "B:weltarg-on-defaulted-limit-uses-metric-units"
    if attr in ("group.prod.allRatesAction", "group.prod.waterAction", "group.prod.gasAction", "group.prod.liquidAction"):
        return "B:group.prod.exceed-action"
    if attr.endswith(".available_group_control") and attr.startswith("group."):
        return "B:group.available_group_control"
    if attr in ("group.prod.cmode", "group.prodControls.cmode", "group.prod.controls") or \
            (re.match(r"group\.prodControls\.\w+_target$", attr) and x == "<inactive>"):
        return "B:group.prod.cmode"
    if attr in ("group.inj.cmode", "group.injControls.cmode"):
        return "B:group.inj.cmode"
    if re.match(r"well\.(prod|inj)_udq\.", attr) and x == "<absent>":
        return "B:well.uda-stale-after-redefinition"
    if attr.startswith("group") and state is not None and other is not None:
        # a group-level UDA of one group (FIELD) restored onto another group: everything that differs in the groups
        # that lost / received the UDQ name belongs to that finding
        gname = path.strip("/").split("/")[1] if path.count("/") >= 2 else ""
        tk = ("oil_target", "water_target", "gas_target", "liquid_target")
        ga, gb = state["groups"].get(gname, {}).get("prod", {}), other["groups"].get(gname, {}).get("prod", {})
        if any(ga.get(k) != gb.get(k) and "<numeric>" in (ga.get(k), gb.get(k)) for k in tk):
            return "B:group.uda-lost"
    mg = re.match(r"group\.prod(Controls)?\.(oil|water|gas|liquid)_target$", attr)
    if mg and state is not None:
        gname = path.strip("/").split("/")[1]
        tgt = state["groups"].get(gname, {}).get("prod", {}).get(mg.group(2) + "_target")
        if tgt not in (None, "<numeric>") and other["groups"].get(gname, {}).get("prod", {}).get(mg.group(2) + "_target") == "<numeric>":
            return "B:group.uda-lost"
    if attr.startswith("well.") and state is not None and other is not None and path.count("/") >= 2:
        wn = path.strip("/").split("/")[1]
        wa, wb = state.get("wells", {}).get(wn, {}), other.get("wells", {}).get(wn, {})
        if wa.get("injector") and not wa.get("producer") and wb.get("producer") and uda_producer_turned_injector(case, wn):
            # a producer with a UDQ-valued limit (WCONPROD ... 'FU_A') that WCONINJE turned into an injector: the
            # (well, control) record stays in UDQActive, goes into IUAD/IUAP, and the restart re-applies it - the
            # well comes back as a producer
            return "B:well.uda-survives-conversion-to-injector"
    if attr.startswith("wlist_members"):
        # membership proper.  Recorded only for the one shape that fails on the unchanged tree: a well that re-enters a
        # list it had left before (its stale entry makes WListManager's per-well list count go wrong, and a later DEL
        # wipes the well's list names); every other loss of a member is reported
        return "B:wlists.reentry-after-leaving" if wlist_reentry(case) else None
    if attr.startswith("wlists"):
        return "B:wlists"
    if attr == "well.seg.inlets.len":
        return "B:well.seg.inlets"
    if attr == "network.node.target_group":
        return "B:network.node.as_choke"
    def _isolated(nw, name):
        nodes = nw.get("nodes", {})
        me = nodes.get(name) or {}
        return not me.get("uptree") and not any((v.get("uptree") or {}).get("node") == name for v in nodes.values() if isinstance(v, dict))
    if attr.startswith("network") and state is not None and (
            not state.get("network", {}).get("active", True) or
            (path.count("/") >= 3 and _isolated(state.get("network", {}), path.strip("/").split("/")[2]))):
        # nodes of a network that has no branches (any more), or a node left without any branch: the restart file carries
        # network arrays only for an active network (branches AND nodes) and only the nodes its branches name
        return "B:network.nodes-of-inactive-network"
    if attr.startswith("group.injControls.") and attr.endswith("voidage_group"):
        return "B:group.inj.voidage_group"
    return "B:" + attr


PROD_LIMITS = {"oil_rate": 0, "water_rate": 1, "gas_rate": 2, "liquid_rate": 3, "resv_rate": 5, "bhp_limit": 6, "thp_limit": 7}
INJ_LIMITS = {"surface_rate": 0, "reservoir_rate": 1, "bhp_limit": 2, "thp_limit": 3}


def norm_state(s):
    """the restart-relevant projection of one dumped state: what the statement's list means for each entity.
    * the production block is compared for producers, the injection block for injectors (the other block of a well is
      never used);
    * limits and targets are compared as the simulator sees them (Well::productionControls / injectionControls
      evaluated against the summary state): a limit value counts only when the corresponding constraint is active;
      the raw UDA members are compared by NAME when they hold a UDQ (restart stores numbers and UDQ references
      differently from the deck representation: defaulted vs 0 vs 1e20 are the same constraint set);
    * the active control mode of a well that is not OPEN is not compared (documented: lost for shut wells);
    * a non-positive well guide rate means 'not specified'; status AUTO is written as SHUT (the simulator state has
      no AUTO);
    * the preferred phase is compared for producers only (as upstream's Schedule::cmp does)."""
    s = json.loads(json.dumps(s))
    for it in s["udq"]["items"].values():
        if it["kind"] == "ASSIGN":
            # the report step an ASSIGN was made at is bookkeeping: after a restart it is the restart step
            # the records (selector, value) come back as one record per well/group that holds a value: equivalent
            # in effect; the values themselves are compared in half A (UDQState)
            it["assign"] = "<records>"
    for a in s["actions"].values():
        for c in a["conditions"]:
            # members of a condition: [lhs, rhs, logic, comparator, comparator text, ...]; the text forms are for
            # printing only ('0.5' vs '0.500000', '>' vs '')
            if isinstance(c, list) and len(c) > 4:
                c[4] = "<text>"
                for q in c[:2]:
                    if isinstance(q, list) and q and isinstance(q[0], str):
                        try:
                            q[0] = repr(float(q[0]))
                        except ValueError:
                            pass
    for g in s["groups"].values():
        # the group tree is compared as a relation (parent, set of children): the order of a group's child groups follows
        # the order the GRUPTREE records came in originally and the group insert order after a restart
        g["groups"] = sorted(g["groups"])
        p = g["prod"]
        for k in ("oil_target", "water_target", "gas_target", "liquid_target"):
            p[k] = p[k][1] if p[k][0] == "s" else "<numeric>"
        c = g.get("prodControls")
        if isinstance(c, dict) and "cmode" in c:
            for k, bit in (("oil_target", 1), ("water_target", 2), ("gas_target", 4), ("liquid_target", 8), ("resv_target", 32)):
                if not p["controls"] & bit:
                    c[k] = "<inactive>"
            if hexf(c["guide_rate"]) <= 0:
                c["guide_rate"] = "<none>"
        if hexf(p["guide_rate"]) <= 0:
            p["guide_rate"] = "<none>"
        p["resv_target"] = "<see prodControls>"
        for ph, q in g["inj"].items():
            for k in ("surface_max_rate", "resv_max_rate", "target_reinj_fraction", "target_void_fraction"):
                q[k] = q[k][1] if q[k][0] == "s" else "<numeric>"
            c = g.get("injControls", {}).get(ph)
            if isinstance(c, dict) and "cmode" in c:
                for k, bit in (("surface_max_rate", 1), ("resv_max_rate", 2), ("target_reinj_fraction", 4), ("target_void_fraction", 8)):
                    if not q["controls"] & bit:
                        c[k] = "<inactive>"
    for w in s["wells"].values():
        # connections are compared cell by cell; their order is an attribute of its own
        w["conn_order"] = ["%d,%d,%d" % (c["I"], c["J"], c["K"]) for c in w["conn"]]
        w["conn"] = {"%d,%d,%d" % (c["I"], c["J"], c["K"]): c for c in w["conn"]}
        # likewise the segments: compared by number; the storage order is an attribute of its own
        w["seg_order"] = [sg["number"] for sg in w["seg"]]
        w["seg"] = {str(sg["number"]): sg for sg in w["seg"]}
    for w in s["wells"].values():
        producer = w["producer"]
        for side in ("prod", "inj"):
            raw = w.pop(side, None)
            if raw is None or (side == "prod") != producer:
                continue
            w[side + "_udq"] = {k: v[1] for k, v in raw.items() if isinstance(v, list) and v and v[0] == "s"}
            w[side + "_predictionMode"] = raw["predictionMode"]
            w[side + "_VFPTableNumber"] = raw["VFPTableNumber"]
        if not producer:
            w.pop("preferredPhase", None)
        if w["status"] == 4:
            w["status"] = 3
        if hexf(w["guideRate"]) <= 0:
            w["guideRate"] = (-1.0).hex()
        # a well that never got a control keyword (mode undefined) has no meaningful controls block
        for ck, undef in (("prodControls", P_UNDEF), ("injControls", I_UNDEF)):
            if ck in w and w[ck].get("cmode") == undef:
                w[ck] = "<no control keyword yet>"
        c = w.get("prodControls")
        if isinstance(c, dict) and c.get("has") and not c["has"][6]:
            # no WCONPROD/WCONHIST yet (they always add the BHP constraint): what the well has comes from WELTARG or from
            # NODEPROP's auto-choke option alone
            w["prodControls"] = "<no control keyword yet>"
        c = w.get("injControls")
        if isinstance(c, dict) and c.get("has") and not c["has"][2]:
            w["injControls"] = "<no control keyword yet>"
        for ck, gi in (("prodControls", 8), ("injControls", 4)):
            c = w.get(ck)
            if isinstance(c, dict) and "has" in c:
                # whether a well answers to group control is compared through availableForGroupControl; the GRUP bit
                # of the constraint set is a stale copy of it (WGRUPCON / NODEPROP change one without the other)
                c["has"][gi] = "<see availableForGroupControl>"
        c = w.get("prodControls")
        if isinstance(c, dict) and "has" in c:
            for k, i in PROD_LIMITS.items():
                history_rate = (not c["prediction_mode"]) and k in ("oil_rate", "water_rate", "gas_rate")
                if not c["has"][i] and not history_rate:
                    c[k] = "<inactive>"
            if c["prediction_mode"]:
                c["bhp_history"] = c["thp_history"] = "<prediction>"
            else:
                # history matching wells: observed rates, control mode and BHP limit define the well; the set of
                # 'constraints' is rebuilt from them on restart
                c["has"] = "<history>"
                for k in ("liquid_rate", "resv_rate", "thp_limit", "alq_value"):
                    c[k] = "<history>"
            if w["status"] != 1 or c["cmode"] == P_UNDEF:
                c["cmode"] = "<not open or undefined>"
        c = w.get("injControls")
        if isinstance(c, dict) and "has" in c:
            for k, i in INJ_LIMITS.items():
                if not c["has"][i]:
                    c[k] = "<inactive>"
            if not c["prediction_mode"]:
                # history matching injector: observed rate, control mode and BHP limit define the well
                c["has"] = "<history>"
                c["reservoir_rate"] = c["thp_limit"] = "<history>"
            if w["status"] != 1 or c["cmode"] == I_UNDEF:
                c["cmode"] = "<not open or undefined>"
    return s


# attributes observed but not asserted, with the reason
NOT_CLAIMED = {
    # not in the statement's list (wells, connections, segments, group tree, controls/limits/targets, efficiency factors,
    # well lists, UDQ and ACTIONX definitions, network nodes and branches)
    "glo": "gas lift optimisation: not in the statement's list",
    "oilvap": "DRSDT/DRVDT/VAPPARS: not in the statement's list",
    "network_balance": "NETBALAN parameters: the statement names network nodes and branches only",
    "guide_rate_model": "GUIDERAT model: not in the statement's list", "guide_rate_model.len": "see guide_rate_model",
    "wtest_config": "WTEST: not in the statement's list",
    "tuning": "design: not asserted", "nupcol": "not in the statement's list", "whistctl": "not in the statement's list",
    "gconsale": "not in the statement's list", "gconsump": "not in the statement's list",
    "start": "compared through Schedule::seconds",
    "well.firstTimeStep": "a restarted well is first defined at the restart step (upstream's cmp only asks for <= step)",
    "well.conn.r0": "design: recomputed", "well.conn.re": "recomputed", "well.conn.Ke": "recomputed",
    "well.conn.length": "recomputed", "well.conn.dFactor": "not in the statement's connection list",
    "well.conn.wpimult": "WPIMULT factor is folded into CF", "well.conn.global_index": "follows from I,J,K",
    "well.pvtTable": "WELSPECS item 11 is not stored in the restart file (comes back 0); not in the statement's list - reported as an observation",
    "well.fipRegion": "not stored; not in the statement's list",
    "well.econ.onAnyEffectiveLimit": "derived",
    "udq_active": "bookkeeping of which UDA uses which UDQ; the statement names the definitions",
    "action.start_time": "the time the ACTIONX was entered (after a restart: the restart time); a lower bound for triggering only",
    "well.prodControls.exc": "getter threw on both sides", "well.injControls.exc": "getter threw on both sides",
}
