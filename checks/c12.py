"""C12 - cell property arrays equal the sequential application of the keyword operations.

Two oracles on every generated program:
 (i)  a reference interpreter over GLOBAL cells (value, error bound, status
      {uninitialised, default, deck}) written from the property statement, the
      Eclipse manual semantics it paraphrases and the explanatory comments in
      FieldProps.cpp/.hpp (never from the handlers' code);
 (ii) metamorphic: the same program on the all-active grid gives, bit for bit, the same
      values in the cells that are active in the masked run.
"""
import math
import os
from fractions import Fraction as Fr

from hypothesis import strategies as st

from vlib.runner import Check, Discard, sha
from vlib.probe import hexf

# --------------------------------------------------------------------------- units
# Independent unit table: exact rationals from the physical definitions (inch = 0.0254 m,
# lb = 0.45359237 kg, g_n = 9.80665 m/s2, US gallon = 231 in3, stb = 42 gal,
# darcy = 1 cm2 cP / (atm s)).  (factor, offset): si = raw * factor + offset
_IN = Fr(254, 10000)
_FT = 12 * _IN
_LB = Fr(45359237, 100000000)
_G = Fr(980665, 100000)
_PSI = _LB * _G / _IN ** 2
_BAR = Fr(100000)
_ATM = Fr(101325)
_STB = 42 * 231 * _IN ** 3
_MSCF = 1000 * _FT ** 3
_MD = Fr(1, 10 ** 7) / _ATM / 1000          # (1e-4 m2 * 1e-3 Pa s) / (101325 Pa * 1 s) / 1000
_C0 = Fr(27315, 100)


def _u(length, pressure, rvol, gdf, odf, temp, dens):
    return {"1": (Fr(1), Fr(0)), "Length": (length, Fr(0)), "Pressure": (pressure, Fr(0)),
            "Permeability": (_MD, Fr(0)), "ReservoirVolume": (rvol, Fr(0)),
            "GasDissolutionFactor": (gdf, Fr(0)), "OilDissolutionFactor": (odf, Fr(0)),
            "Temperature": temp, "Density": (dens, Fr(0))}


UNITS = {
    "METRIC": _u(Fr(1), _BAR, Fr(1), Fr(1), Fr(1), (Fr(1), _C0), Fr(1)),
    "FIELD": _u(_FT, _PSI, _STB, _MSCF / _STB, _STB / _MSCF, (Fr(5, 9), Fr(45967, 100) * Fr(5, 9)), _LB / _FT ** 3),
    "LAB": _u(Fr(1, 100), _ATM, Fr(1, 10 ** 6), Fr(1), Fr(1), (Fr(1), _C0), Fr(1000)),
    "PVT-M": _u(Fr(1), _ATM, Fr(1), Fr(1), Fr(1), (Fr(1), _C0), Fr(1)),
}

# --------------------------------------------------------------------------- catalogue


def _a(sec, typ, dim="1", default=None, unk=False, top=False, glob=False, mult=False, lo=0.0, hi=1.0,
       pos=False):
    return dict(sec=sec, typ=typ, dim=dim, default=default, unk=unk, top=top, glob=glob, mult=mult,
                lo=lo, hi=hi, pos=pos)


ARR = {
    # GRID
    "PORO": _a("GRID", "d", top=True, lo=0.05, hi=0.4, pos=True),
    "PERMX": _a("GRID", "d", "Permeability", top=True, glob=True, lo=1.0, hi=2000.0),
    "PERMY": _a("GRID", "d", "Permeability", top=True, glob=True, lo=1.0, hi=2000.0),
    "PERMZ": _a("GRID", "d", "Permeability", top=True, glob=True, lo=0.1, hi=200.0),
    "NTG": _a("GRID", "d", default=1.0, lo=0.1, hi=1.0, pos=True),
    "MULTPV": _a("GRID", "d", default=1.0, mult=True, lo=0.5, hi=2.0, pos=True),
    "MULTX": _a("GRID", "d", default=1.0, mult=True, lo=0.1, hi=10.0),
    "MULTX-": _a("GRID", "d", default=1.0, mult=True, lo=0.1, hi=10.0),
    "MULTY": _a("GRID", "d", default=1.0, mult=True, lo=0.1, hi=10.0),
    "MULTY-": _a("GRID", "d", default=1.0, mult=True, lo=0.1, hi=10.0),
    "MULTZ": _a("GRID", "d", default=1.0, mult=True, glob=True, lo=0.1, hi=10.0),
    "MULTZ-": _a("GRID", "d", default=1.0, mult=True, glob=True, lo=0.1, hi=10.0),
    "DISPERC": _a("GRID", "d", "Length", lo=0.1, hi=50.0),
    "FLUXNUM": _a("GRID", "i"),
    "MULTNUM": _a("GRID", "i", default=1),
    "OPERNUM": _a("GRID", "i"),
    # EDIT
    "PORV": _a("EDIT", "d", "ReservoirVolume", unk=True, lo=10.0, hi=10000.0, pos=True),
    # PROPS
    "SWATINIT": _a("PROPS", "d", lo=0.1, hi=0.9),
    "SWL": _a("PROPS", "d", unk=True, lo=0.05, hi=0.3),
    "SWCR": _a("PROPS", "d", unk=True, lo=0.1, hi=0.4),
    "SWU": _a("PROPS", "d", unk=True, lo=0.7, hi=1.0),
    "SGL": _a("PROPS", "d", unk=True, lo=0.0, hi=0.1),
    "SGCR": _a("PROPS", "d", unk=True, lo=0.02, hi=0.2),
    "SGU": _a("PROPS", "d", unk=True, lo=0.6, hi=0.95),
    "SOWCR": _a("PROPS", "d", unk=True, lo=0.05, hi=0.3),
    "SOGCR": _a("PROPS", "d", unk=True, lo=0.05, hi=0.3),
    "KRW": _a("PROPS", "d", unk=True, lo=0.2, hi=1.0),
    "KRO": _a("PROPS", "d", unk=True, lo=0.2, hi=1.0),
    "KRG": _a("PROPS", "d", unk=True, lo=0.2, hi=1.0),
    # REGIONS
    "SATNUM": _a("REGIONS", "i", default=1),
    "PVTNUM": _a("REGIONS", "i", default=1),
    "EQLNUM": _a("REGIONS", "i", default=1),
    "FIPNUM": _a("REGIONS", "i", default=1),
    "ENDNUM": _a("REGIONS", "i", default=1),
    "ROCKNUM": _a("REGIONS", "i"),
    "MISCNUM": _a("REGIONS", "i"),
    # SOLUTION
    "PRESSURE": _a("SOLUTION", "d", "Pressure", lo=50.0, hi=500.0),
    "SWAT": _a("SOLUTION", "d", lo=0.0, hi=1.0),
    "SGAS": _a("SOLUTION", "d", lo=0.0, hi=1.0),
    "RS": _a("SOLUTION", "d", "GasDissolutionFactor", lo=10.0, hi=200.0),
    "RV": _a("SOLUTION", "d", "OilDissolutionFactor", lo=0.0001, hi=0.01),
    "TEMPI": _a("SOLUTION", "d", "Temperature", unk=True, lo=20.0, hi=150.0),
}
SECTIONS = ["GRID", "EDIT", "PROPS", "REGIONS", "SOLUTION"]
EDIT_MULT = ["MULTPV", "MULTX", "MULTX-", "MULTY", "MULTY-", "MULTZ", "MULTZ-"]
REGSETS = {"M": "MULTNUM", "F": "FLUXNUM", "O": "OPERNUM"}
INT_MAX = 9      # TABDIMS/EQLDIMS/REGDIMS of the generated decks are sized for region ids 1..9

SCALAR_OPS = ["EQUALS", "ADD", "MULTIPLY", "MINVALUE", "MAXVALUE"]
REG_OPS = ["EQUALREG", "ADDREG", "MULTIREG"]
OPERATE_FUNCS = ["MULTA", "POLY", "SLOG", "LOG10", "LOGE", "INV", "MULTX", "ADDX", "COPY", "MAXLIM",
                 "MINLIM", "MULTP", "ABS", "MULTIPLY"]
# functions that are unit-consistent for dimensioned arrays of equal dimension (linear in X,
# constants either dimensionless factors or quantities of the array's own dimension)
LINEAR_FUNCS = {"MULTA", "MULTX", "ADDX", "COPY", "MAXLIM", "MINLIM", "ABS"}


def sec_arrays(sec, typ=None):
    r = []
    for n, a in ARR.items():
        insec = a["sec"] == sec or (sec == "REGIONS" and n == "OPERNUM") or (sec == "EDIT" and n in EDIT_MULT)
        if insec and (typ is None or a["typ"] == typ):
            r.append(n)
    return r


IGNORE_KNOWN = set(k for k in os.environ.get("VERIF_C12_IGNORE_KNOWN", "").split(",") if k)
# the defects this check models (gating of their triggers, taint of what they may have touched).  One that
# known_findings.jsonl no longer lists as "known" - i.e. repaired in /repo - is treated exactly like one named in
# VERIF_C12_IGNORE_KNOWN: its trigger is generated at full rate, nothing is tainted by it, a recurrence is a VIOLATION.
MODELLED_KEYS = {"regop-int-ignored", "add-temperature-offset", "copyreg-global-stale", "regop-global-status-stale",
                 "top-distribute-inactive-source", "regions-before-props"}
try:
    from vlib.runner import load_known as _lk
    IGNORE_KNOWN |= MODELLED_KEYS - {e["key"] for e in _lk("C12") if e.get("status") == "known"}
except Exception:
    pass


# --------------------------------------------------------------------------- reference interpreter
class Invalid(Exception):
    """the operation is outside the domain the generator is allowed to produce"""


def ulp(x):
    return math.ulp(abs(x)) if x == x and abs(x) != math.inf else math.inf


class Arr:
    __slots__ = ("name", "typ", "val", "err", "st", "exists", "taint", "gexact", "opaque", "gst", "gdiff")

    def __init__(self, name, n):
        a = ARR[name]
        self.name = name
        self.typ = a["typ"]
        self.err = [0.0] * n
        if a["default"] is not None:
            self.val = [a["default"]] * n
            self.st = [1] * n
        elif a["unk"]:
            self.val = [None] * n          # a default exists, its value is not asserted here
            self.st = [1] * n
        else:
            self.val = [None] * n
            self.st = [0] * n
        # status the library keeps in the GLOBAL copy of a global-storage array.  Region operations
        # do not update it (known defect regop-global-status-stale); the library then refuses
        # ADD/MULTIPLY/MIN/MAX, COPY and OPERATE that read such cells, so those are not generated.
        self.gst = list(self.st) if a["glob"] else None
        # per cell: key of the known defect because of which the library's GLOBAL copy may hold another
        # value than the active-cell data (None: get_global must repeat get in that cell)
        self.gdiff = [None] * n if a["glob"] else None
        self.exists = False      # has been the target of an operation (the library requires this
        #                          for ADD/MULTIPLY/MINVALUE/MAXVALUE on non-multiplier arrays)
        self.taint = set()       # keys of known library defects that may have influenced this array
        self.gexact = True       # False: inactive cells of a global-storage array are not asserted
        self.opaque = False      # True: content not modelled (top-layer distribution); only oracle (ii) applies


def add_taint(a, key):
    if key not in IGNORE_KNOWN:      # a defect that is treated as fixed influences nothing
        a.taint.add(key)


class Model:
    """Applies the operations one after the other in input order on global cells."""

    def __init__(self, dims, units, nrmult):
        self.nx, self.ny, self.nz = dims
        self.n = self.nx * self.ny * self.nz
        self.units = units
        self.default_region = "MULTNUM" if nrmult > 0 else "FLUXNUM"
        self.A = {}
        self.full = [0, self.nx - 1, 0, self.ny - 1, 0, self.nz - 1]
        self.box = list(self.full)
        self.sec = None
        self.props_used_opernum = False
        self.in_region_op = False
        self.props_after_opernum = set()   # PROPS arrays touched after the first use of region set OPERNUM in PROPS

    # ---- helpers
    def arr(self, name, sec=None):
        key = name
        if (sec or self.sec) == "EDIT" and name in EDIT_MULT:
            key = "E:" + name            # multipliers entered in EDIT are a separate array, see end_section
        a = self.A.get(key)
        if a is None:
            a = self.A[key] = Arr(name, self.n)
        if self.sec == "PROPS" and self.props_used_opernum:
            self.props_after_opernum.add(key)
        if self.sec == "REGIONS" and name == "OPERNUM" and sec is None and self.props_used_opernum:
            # The library scans REGIONS before PROPS (FieldProps constructor), so region operations
            # of the PROPS section see OPERNUM as modified later in REGIONS: known defect
            for k in self.props_after_opernum:
                if k in self.A:
                    add_taint(self.A[k], "regions-before-props")
        return a

    def cells(self, box):
        i1, i2, j1, j2, k1, k2 = box
        nx, ny = self.nx, self.ny
        return [i + nx * (j + ny * k) for k in range(k1, k2 + 1) for j in range(j1, j2 + 1) for i in range(i1, i2 + 1)]

    def conv(self, name, raw, shift=False):
        """deck value -> SI (value, error bound).  8 ulp: my factor and the library's are both
        within 1-2 ulp of the exact rational, the product/sum rounds twice, and the deck reader
        (boost spirit) is within 2 ulp of the decimal."""
        f, off = UNITS[self.units][ARR[name]["dim"]]
        f = float(f)
        off = 0.0 if shift else float(off)
        v = raw * f + off
        return v, 8 * ulp(v) + (8 * ulp(off) if off else 0.0)

    def regname(self, setletter):
        if setletter is None:
            return self.default_region
        return REGSETS[setletter]

    def region_cells(self, regname, rid):
        r = self.arr(regname, "GRID")
        if any(s == 0 for s in r.st):
            raise Invalid("region array not fully defined")
        return [g for g in range(self.n) if r.val[g] == rid], r

    def begin_section(self, sec):
        self.sec = sec
        self.box = list(self.full)

    def end_section(self):
        if self.sec == "EDIT":
            # Comment in FieldProps::scanEDITSection / apply_multipliers: multipliers given in
            # EDIT are collected separately ("to prevent EQUALS MULT* from overwriting values")
            # and at the end of the section multiplied onto the existing (GRID) ones.
            for name in EDIT_MULT:
                e = self.A.pop("E:" + name, None)
                if e is None:
                    continue
                g = self.arr(name, "GRID")
                for c in range(self.n):
                    vg, ve = g.val[c], e.val[c]
                    v = vg * ve
                    g.err[c] = g.err[c] * abs(ve) + e.err[c] * abs(vg) + g.err[c] * e.err[c] + ulp(v)
                    g.val[c] = v
                    if g.gdiff is not None:
                        g.gdiff[c] = g.gdiff[c] or e.gdiff[c]
                g.taint |= e.taint
                g.exists = True
        self.sec = None

    # ---- operations.  Each validates completely before it changes anything.
    def op_box(self, box):
        self.check_box(box)
        self.box = list(box)

    def op_endbox(self):
        self.box = list(self.full)

    def check_box(self, b):
        if not (0 <= b[0] <= b[1] < self.nx and 0 <= b[2] <= b[3] < self.ny and 0 <= b[4] <= b[5] < self.nz):
            raise Invalid("bad box")

    def check_target(self, name):
        if name not in ARR:
            raise Invalid("unknown array")
        if name not in sec_arrays(self.sec):
            raise Invalid("array %s not in section %s" % (name, self.sec))

    def op_data(self, name, vals):
        """array keyword: one value per cell of the current box, None = defaulted entry (n*),
        which keeps what the cell had before"""
        self.check_target(name)
        a = self.arr(name)
        cs = self.cells(self.box)
        if len(vals) != len(cs):
            raise Invalid("data size")
        info = ARR[name]
        partial = len(cs) != self.n or any(v is None for v in vals)
        if a.opaque:
            raise Invalid("array content not modelled")
        if info["top"] and partial and any(s == 0 for s in a.st):
            # PORO/PERM*: an incompletely specified GRID array takes the top-layer values of the
            # keyword for the cells below.  The interpreter does not model this; the array becomes
            # opaque (no further operations, compared by the metamorphic oracle only).
            if any(v is None for v in vals):
                raise Invalid("defaulted entries together with top-layer distribution")
            becomes_opaque = True
        else:
            becomes_opaque = False
        if name == "PORO" and any(v is None and a.st[c] == 0 for v, c in zip(vals, cs)):
            raise Invalid("PORO default on undefined cell")
        for v in vals:
            if v is not None and info["typ"] == "i" and not (1 <= v <= INT_MAX):
                raise Invalid("int range")
        for v, c in zip(vals, cs):
            if v is None:
                if a.gst is not None and a.gst[c] == 0 and a.st[c] != 0:
                    # stale 'uninitialised' status in the global copy: the defaulted entry overwrites it
                    a.gdiff[c] = "regop-global-status-stale"
                continue
            if a.typ == "i":
                a.val[c] = v
            else:
                a.val[c], a.err[c] = self.conv(name, v)
            a.st[c] = 2
            if a.gst is not None:
                a.gst[c] = 2
                a.gdiff[c] = None
        a.opaque = becomes_opaque
        a.exists = True

    def _scalar_cells(self, a, name, kind, cs, v):
        info = ARR[name]
        if a.opaque:
            raise Invalid("array content not modelled")
        if kind == "EQUALS":
            if a.typ == "i" and not (1 <= v <= INT_MAX):
                raise Invalid("int range")
            return
        if not a.exists and not info["mult"]:
            raise Invalid("array must exist")
        if any(a.st[c] == 0 for c in cs):
            raise Invalid("operation on undefined cells")
        if a.gst is not None and not self.in_region_op and any(a.gst[c] == 0 for c in cs):
            raise Invalid("global copy has stale statuses after a region operation")
        if a.typ == "i":
            if v != int(v):
                raise Invalid("int scalar")
            for c in cs:
                x = a.val[c]
                y = x + v if kind == "ADD" else x * v if kind == "MULTIPLY" else max(x, v) if kind == "MINVALUE" else min(x, v)
                if not (1 <= y <= INT_MAX):
                    raise Invalid("int range")

    def _apply_scalar(self, a, name, kind, cs, v):
        if a.typ == "i":
            v = int(v)
            for c in cs:
                x = a.val[c]
                if kind == "EQUALS":
                    a.val[c] = v
                    a.st[c] = 2
                elif kind == "ADD":
                    a.val[c] = x + v
                elif kind == "MULTIPLY":
                    a.val[c] = x * v
                elif kind == "MINVALUE":
                    a.val[c] = max(x, v)
                else:
                    a.val[c] = min(x, v)
            return
        if kind == "MULTIPLY":
            s, es = v, 0.0                                  # a factor has no dimension
        elif kind == "ADD":
            s, es = self.conv(name, v, shift=True)          # a shift is a difference: no offset
        else:
            s, es = self.conv(name, v)
        for c in cs:
            x, e = a.val[c], a.err[c]
            if kind == "EQUALS":
                a.val[c], a.err[c], a.st[c] = s, es, 2
                if a.gst is not None and not self.in_region_op:
                    a.gst[c] = 2
                    a.gdiff[c] = None
                continue
            if x is None:
                continue                                     # unknown default stays unknown
            if kind == "ADD":
                y = x + s
                a.val[c], a.err[c] = y, e + es + ulp(y)
            elif kind == "MULTIPLY":
                y = x * s
                a.val[c], a.err[c] = y, e * abs(s) + ulp(y)
            elif kind == "MINVALUE":                         # no value below the threshold
                a.val[c], a.err[c] = max(x, s), max(e, es)
            else:                                            # MAXVALUE: no value above
                a.val[c], a.err[c] = min(x, s), max(e, es)

    def op_scalar(self, kind, name, v, box):
        """one record of EQUALS/ADD/MULTIPLY/MINVALUE/MAXVALUE.  box None = defaulted (the box of
        the previous record of the keyword, at the first record the current BOX)"""
        self.check_target(name)
        if kind in ("MINVALUE", "MAXVALUE") and self.sec not in ("GRID", "EDIT", "PROPS"):
            raise Invalid("keyword not valid in section")
        if box is not None:
            self.check_box(box)
            self.kwbox = list(box)
        a = self.arr(name)
        cs = self.cells(self.kwbox)
        self._scalar_cells(a, name, kind, cs, v)
        if ARR[name]["pos"] and v <= 0:
            raise Invalid("positive array")
        self._apply_scalar(a, name, kind, cs, v)
        if kind == "ADD" and ARR[name]["dim"] == "Temperature" and cs:
            add_taint(a, "add-temperature-offset")
        a.exists = True

    def _check_copy(self, src, dst, cs, region):
        if src not in ARR or dst not in ARR or src == dst:
            raise Invalid("copy arrays")
        self.check_target(dst)
        s_info, d_info = ARR[src], ARR[dst]
        if s_info["typ"] != d_info["typ"] or s_info["dim"] != d_info["dim"]:
            raise Invalid("copy between different types/dimensions")
        if self.sec == "EDIT" and (src in EDIT_MULT or dst in EDIT_MULT):
            raise Invalid("EDIT multiplier arrays only take scalar operations here")
        if SECTIONS.index(s_info["sec"]) > SECTIONS.index(self.sec) and not (src == "OPERNUM" and self.sec == "REGIONS"):
            raise Invalid("source from a later section")
        if src not in self.A or not self.A[src].exists:
            raise Invalid("source must exist")
        s = self.A[src]
        if s.opaque or (dst in self.A and self.A[dst].opaque):
            raise Invalid("array content not modelled")
        if any(x == 0 for x in s.st):
            raise Invalid("source not fully defined")
        if any(s.st[c] != 2 for c in cs):
            raise Invalid("source cells without deck value")
        if d_info["glob"] and not s_info["glob"] and not region:
            raise Invalid("storage mismatch")
        if d_info["glob"] and not region and any(s.gst[c] != 2 for c in cs):
            raise Invalid("global copy of the source has stale statuses after a region operation")
        if d_info["pos"] and any(s.val[c] is None or s.val[c] <= 0 for c in cs):
            raise Invalid("positive array")
        return s

    def _do_copy(self, s, d, cs, region=False):
        for c in cs:
            d.val[c], d.err[c], d.st[c] = s.val[c], s.err[c], s.st[c]
            if d.gst is not None and not region:
                d.gst[c] = s.gst[c]
                d.gdiff[c] = s.gdiff[c]
        d.taint |= s.taint
        d.gexact = d.gexact and s.gexact     # inactive cells that the source's region operations did not reach
        d.exists = True

    def op_copy(self, src, dst, box):
        if box is not None:
            self.check_box(box)
            self.kwbox = list(box)
        cs = self.cells(self.kwbox)
        s = self._check_copy(src, dst, cs, False)
        self._do_copy(s, self.arr(dst), cs)

    # OPERATE functions as documented: R result, X source, a = alpha, b = beta
    def _fn(self, fn, name, r, re, x, xe, a, b):
        """returns (value, error bound); raises Invalid outside the function's domain"""
        def span(f, lo_ok=None):
            lo, hi = x - xe, x + xe
            if lo_ok is not None and not lo_ok(lo):
                raise Invalid("domain")
            y = f(x)
            return y, max(abs(f(lo) - y), abs(f(hi) - y)) + 4 * ulp(y)
        try:
            if fn == "MULTA":
                bs, be = self.conv(name, b)
                y = a * x + bs
                return y, abs(a) * xe + be + ulp(a * x) + 2 * ulp(y)
            if fn == "POLY":
                if r is None:
                    return None, 0.0
                p, pe = span(lambda t: t ** b, lambda lo: lo > 0)
                y = r + a * p
                return y, re + abs(a) * pe + ulp(a * p) + 2 * ulp(y)
            if fn == "SLOG":
                t = a + b * x
                if abs(t) > 6:
                    raise Invalid("domain")
                te = abs(b) * xe + ulp(b * x) + 2 * ulp(t)
                y = 10.0 ** t
                return y, max(abs(10.0 ** (t - te) - y), abs(10.0 ** (t + te) - y)) + 4 * ulp(y)
            if fn == "LOG10":
                return span(math.log10, lambda lo: lo > 0)
            if fn == "LOGE":
                return span(math.log, lambda lo: lo > 0)
            if fn == "INV":
                return span(lambda t: 1.0 / t, lambda lo: lo > 0)
            if fn == "MULTX":
                y = a * x
                return y, abs(a) * xe + ulp(y)
            if fn == "ADDX":
                s, es = self.conv(name, a, shift=True)
                y = x + s
                return y, xe + es + ulp(y)
            if fn == "COPY":
                return x, xe
            if fn == "MAXLIM":
                s, es = self.conv(name, a)
                return min(x, s), max(xe, es)
            if fn == "MINLIM":
                s, es = self.conv(name, a)
                return max(x, s), max(xe, es)
            if fn == "MULTP":
                p, pe = span(lambda t: t ** b, lambda lo: lo > 0)
                y = a * p
                return y, abs(a) * pe + 2 * ulp(y)
            if fn == "ABS":
                return abs(x), xe
            if fn == "MULTIPLY":
                if r is None:
                    return None, 0.0
                y = r * x
                return y, re * abs(x) + xe * abs(r) + re * xe + ulp(y)
        except (OverflowError, ZeroDivisionError, ValueError):
            raise Invalid("domain")
        raise Invalid("unknown function")

    def _check_operate(self, dst, fn, src, cs, region=False):
        self.check_target(dst)
        if src not in ARR or fn not in OPERATE_FUNCS:
            raise Invalid("operate args")
        d_info, s_info = ARR[dst], ARR[src]
        if d_info["typ"] != "d" or s_info["typ"] != "d":
            raise Invalid("operate on int")
        if d_info["dim"] == "Temperature" or s_info["dim"] == "Temperature":
            raise Invalid("offset units not modelled for OPERATE")
        if self.sec == "EDIT" and (src in EDIT_MULT or dst in EDIT_MULT):
            raise Invalid("EDIT multiplier arrays only take scalar operations here")
        if SECTIONS.index(s_info["sec"]) > SECTIONS.index(self.sec):
            raise Invalid("source from a later section")
        if fn in LINEAR_FUNCS:
            if d_info["dim"] != s_info["dim"]:
                raise Invalid("dimension mismatch")
        elif fn == "MULTIPLY":
            if s_info["dim"] != "1":
                raise Invalid("dimension mismatch")
        elif d_info["dim"] != "1" or s_info["dim"] != "1":
            raise Invalid("non-linear function on dimensioned arrays")
        if d_info["pos"]:
            raise Invalid("positive array")
        s = self.arr(src, s_info["sec"])
        if any(s.st[c] == 0 or s.val[c] is None for c in cs):
            raise Invalid("source undefined/unknown")
        d = self.arr(dst)
        if s.opaque or d.opaque:
            raise Invalid("array content not modelled")
        if fn in ("MULTIPLY", "POLY") and any(d.st[c] == 0 for c in cs):
            raise Invalid("target undefined")
        if d_info["glob"] and not s_info["glob"]:
            raise Invalid("storage mismatch")
        if d_info["glob"] and not region and (any(s.gst[c] == 0 for c in cs) or
                                              (fn in ("MULTIPLY", "POLY") and any(d.gst[c] == 0 for c in cs))):
            raise Invalid("global copy has stale statuses after a region operation")
        return s, d

    def _do_operate(self, dst, fn, s, d, cs, a, b, region=False):
        new = []
        for c in cs:
            new.append(self._fn(fn, dst, d.val[c], d.err[c], s.val[c], s.err[c], a, b))
        for c, (y, e) in zip(cs, new):
            if y is not None and (y != y or abs(y) == math.inf or abs(y) > 1e200):
                raise Invalid("overflow")
        for c, (y, e) in zip(cs, new):
            d.val[c], d.err[c], d.st[c] = y, e, s.st[c]
            if d.gst is not None and not region:
                d.gst[c] = s.gst[c]
                d.gdiff[c] = s.gdiff[c] or (d.gdiff[c] if fn in ("MULTIPLY", "POLY") else None)
            elif d.gdiff is not None:
                d.gdiff[c] = None            # OPERATER refreshes the global value from the active-cell data
        d.taint |= s.taint
        d.gexact = d.gexact and s.gexact     # inactive cells that the source's region operations did not reach
        d.exists = True

    def op_operate(self, dst, box, fn, src, a, b):
        if box is not None:
            self.check_box(box)
            self.kwbox = list(box)
        cs = self.cells(self.kwbox)
        s, d = self._check_operate(dst, fn, src, cs)
        self._do_operate(dst, fn, s, d, cs, a, b)

    def _region_common(self, dst, regname, r, allow_self=False):
        if self.sec == "EDIT" and dst in EDIT_MULT:
            raise Invalid("EDIT multiplier arrays only take scalar operations here")
        if regname == dst and not allow_self:
            # (EQUALREG/ADDREG/MULTIREG on the selecting array itself are generated: the cells are selected first, then
            # changed, and the next record - also of the same keyword - selects from the changed array)
            raise Invalid("region set is the target")
        if self.sec == "PROPS" and regname == "OPERNUM":
            self.props_used_opernum = True
            self.props_after_opernum.add(dst)

    def op_regscalar(self, kind, name, v, rid, setletter):
        self.check_target(name)
        regname = self.regname(setletter)
        cs, r = self.region_cells(regname, rid)
        self._region_common(name, regname, r, allow_self=True)
        a = self.arr(name)
        if a.opaque:
            raise Invalid("array content not modelled")
        k = {"EQUALREG": "EQUALS", "ADDREG": "ADD", "MULTIREG": "MULTIPLY"}[kind]
        if k != "EQUALS" and any(a.st[c] == 0 for c in cs):
            raise Invalid("operation on undefined cells")
        if a.typ == "i":
            saved = a.exists
            a.exists = True                  # region operations do not require a prior keyword
            try:
                self._scalar_cells(a, name, k, cs, v)
            finally:
                a.exists = saved
        if ARR[name]["pos"] and v <= 0:
            raise Invalid("positive array")
        self.in_region_op = True
        try:
            self._apply_scalar(a, name, k, cs, v)
        finally:
            self.in_region_op = False
        a.taint |= r.taint
        if a.gdiff is not None:
            for c in cs:
                a.gdiff[c] = None            # the global value is refreshed from the active-cell data
        if cs:
            a.gexact = False
            if a.typ == "i":
                add_taint(a, "regop-int-ignored")
            if k == "ADD" and ARR[name]["dim"] == "Temperature":
                add_taint(a, "add-temperature-offset")
        if cs and a.typ != "i":
            a.exists = True      # (the library ignores region operations on int arrays: not created)

    def op_copyreg(self, src, dst, rid, setletter):
        regname = self.regname(setletter)
        cs, r = self.region_cells(regname, rid)
        self._region_common(dst, regname, r)
        s = self._check_copy(src, dst, cs, True)
        d = self.arr(dst)
        self._do_copy(s, d, cs, True)
        d.taint |= r.taint
        if cs:
            d.gexact = False
            if d.gdiff is not None:
                for c in cs:
                    d.gdiff[c] = "copyreg-global-stale"     # global copy not refreshed at all

    def op_operater(self, dst, rid, fn, src, a, b, regname):
        regname = regname or "OPERNUM"
        cs, r = self.region_cells(regname, rid)
        self._region_common(dst, regname, r)
        s, d = self._check_operate(dst, fn, src, cs, True)
        if ARR[dst]["glob"] and not ARR[src]["glob"]:
            raise Invalid("storage mismatch")
        self._do_operate(dst, fn, s, d, cs, a, b, True)
        d.taint |= r.taint
        if cs:
            d.gexact = False

    # ---- keyword level
    def exec_record(self, kw, rec, first):
        """apply one record of a multi-record keyword; `first`: first record of the keyword"""
        if first:
            self.kwbox = list(self.box)
        if kw in SCALAR_OPS:
            self.op_scalar(kw, rec["kw"], rec["v"], rec.get("box"))
        elif kw == "COPY":
            self.op_copy(rec["src"], rec["dst"], rec.get("box"))
        elif kw == "OPERATE":
            self.op_operate(rec["dst"], rec.get("box"), rec["fn"], rec["src"], rec["a"], rec["b"])
        elif kw in REG_OPS:
            self.op_regscalar(kw, rec["kw"], rec["v"], rec["reg"], rec.get("set"))
        elif kw == "COPYREG":
            self.op_copyreg(rec["src"], rec["dst"], rec["reg"], rec.get("set"))
        elif kw == "OPERATER":
            self.op_operater(rec["dst"], rec["reg"], rec["fn"], rec["src"], rec["a"], rec["b"], rec.get("set"))
        else:
            raise Invalid("unknown keyword " + kw)

    def exec_op(self, op):
        k = op["op"]
        if k == "BOX":
            self.op_box(op["box"])
        elif k == "ENDBOX":
            self.op_endbox()
        elif k == "DATA":
            self.op_data(op["kw"], op["vals"])
        else:
            if not op["recs"]:
                raise Invalid("empty keyword")
            for i, rec in enumerate(op["recs"]):
                self.exec_record(k, rec, i == 0)

    def run(self, case):
        for sec in SECTIONS:
            self.begin_section(sec)
            for op in case["prog"].get(sec, []):
                self.exec_op(op)
            if self.box != self.full:
                raise Invalid("open BOX at the end of a section (not asserted)")
            self.end_section()
        # domain guard: the library turns cells with zero pore volume into inactive cells
        for nm in ("PORO", "NTG", "MULTPV", "PORV"):
            a = self.A.get(nm)
            if a is not None and any(v is not None and v <= 0 for v in a.val):
                raise Invalid("non-positive pore volume factor")


# --------------------------------------------------------------------------- deck rendering
def fnum(v):
    if isinstance(v, int):
        return str(v)
    return repr(float(v))


def render_vals(vals, rle):
    out = []
    i = 0
    n = len(vals)
    while i < n:
        j = i
        while j + 1 < n and vals[j + 1] == vals[i] and (vals[i] is None or rle):
            j += 1
        cnt = j - i + 1
        if vals[i] is None:
            out.append("%d*" % cnt)
        elif cnt > 1:
            out.append("%d*%s" % (cnt, fnum(vals[i])))
        else:
            out.append(fnum(vals[i]))
        i = j + 1
    lines = []
    for k in range(0, len(out), 12):
        lines.append(" " + " ".join(out[k:k + 12]))
    return "\n".join(lines)


def rbox(b):
    if b is None:
        return ""
    return " " + " ".join(str(x + 1) for x in b)


def render_op(op):
    k = op["op"]
    if k == "BOX":
        return "BOX\n%s /\n" % rbox(op["box"])
    if k == "ENDBOX":
        return "ENDBOX\n"
    if k == "DATA":
        return "%s\n%s /\n" % (op["kw"], render_vals(op["vals"], op.get("rle", False)))
    lines = [k]
    for r in op["recs"]:
        if k in SCALAR_OPS:
            lines.append(" %s %s%s /" % (r["kw"], fnum(r["v"]), rbox(r.get("box"))))
        elif k == "COPY":
            lines.append(" %s %s%s /" % (r["src"], r["dst"], rbox(r.get("box"))))
        elif k == "OPERATE":
            b = r.get("box")
            lines.append(" %s %s %s %s %s %s /" % (r["dst"], rbox(b) if b is not None else "6*", r["fn"], r["src"],
                                                   fnum(r["a"]), fnum(r["b"])))
        elif k in REG_OPS:
            lines.append(" %s %s %d %s /" % (r["kw"], fnum(r["v"]), r["reg"], r.get("set") or "1*"))
        elif k == "COPYREG":
            lines.append(" %s %s %d %s /" % (r["src"], r["dst"], r["reg"], r.get("set") or "1*"))
        elif k == "OPERATER":
            lines.append(" %s %d %s %s %s %s %s /" % (r["dst"], r["reg"], r["fn"], r["src"], fnum(r["a"]), fnum(r["b"]),
                                                      r.get("set") or "1*"))
    lines.append("/")
    return "\n".join(lines) + "\n"


def sat_tables(n):
    swof = "SWOF\n" + "".join(" %.2f 0 1 0\n %.2f 1 0 0 /\n" % (0.1 + 0.01 * i, 0.9 - 0.01 * i) for i in range(n))
    sgof = "SGOF\n" + "".join(" 0 0 1 0\n %.2f 1 0 0 /\n" % (0.9 - 0.01 * i) for i in range(n))
    return swof + sgof


def render(case, all_active=False):
    nx, ny, nz = case["dims"]
    n = nx * ny * nz
    t = ["RUNSPEC", "DIMENS", " %d %d %d /" % (nx, ny, nz), "OIL", "WATER", "GAS", "DISGAS", "VAPOIL"]
    if case["units"] != "METRIC" or case.get("explicit_metric"):
        t.append(case["units"])
    t += ["TABDIMS", " %d %d /" % (INT_MAX, INT_MAX), "EQLDIMS", " %d /" % INT_MAX, "REGDIMS", " %d /" % INT_MAX,
          "ENDSCALE", " /"]
    if case["nrmult"] > 0 or case.get("gridopts"):
        t += ["GRIDOPTS", " 'YES' %d /" % case["nrmult"]]
    t += ["GRID", "DXV", " %d*%s /" % (nx, fnum(case["dxyz"][0])), "DYV", " %d*%s /" % (ny, fnum(case["dxyz"][1])),
          "DZV", " %d*%s /" % (nz, fnum(case["dxyz"][2])), "TOPS", " %d*1000 /" % (nx * ny)]
    if not all_active and not all(case["actnum"]):
        t += ["ACTNUM", render_vals(case["actnum"], True) + " /"]
    text = "\n".join(t) + "\n"
    for sec in SECTIONS:
        if sec != "GRID":
            text += sec + "\n"
        if sec == "PROPS":
            text += sat_tables(INT_MAX) + "RTEMP\n 60 /\n"
        for op in case["prog"].get(sec, []):
            text += render_op(op)
    text += "SCHEDULE\n"
    return text


# --------------------------------------------------------------------------- generator
# combinations that run into known defects of the library (see known_findings.jsonl); they are
# generated only in a small share of the cases so that they cannot mask anything else
# VERIF_C12_IGNORE_KNOWN=key1,key2 (read only here): treat these known_findings.jsonl lines as absent,
# i.e. a violation with that key is reported strictly and its trigger is generated at full rate.
# Used to verify a fix of the corresponding defect.
def gated(kw, name, dst_glob=False):
    info = ARR[name]
    key = None
    if kw in ("EQUALREG", "ADDREG", "MULTIREG") and info["typ"] == "i":
        key = "regop-int-ignored"          # region operations on integer arrays are ignored by the library
    elif kw in ("ADD", "ADDREG") and info["dim"] == "Temperature":
        key = "add-temperature-offset"     # shift converted as an absolute temperature
    elif kw == "COPYREG" and info["glob"]:
        key = "copyreg-global-stale"       # global storage not refreshed
    return key is not None and key not in IGNORE_KNOWN


class Gen:
    """Draws a program while running the reference interpreter alongside, so that every
    emitted operation is inside the domain (operations on undefined cells etc. are
    legitimate refusals of the library and are not generated).  An operation whose
    precondition does not hold is dropped or replaced by an EQUALS on the same target."""

    def __init__(self, draw, tier):
        self.draw = draw
        self.tier = tier

    def i(self, lo, hi):
        return self.draw(st.integers(lo, hi))

    def pick(self, seq):
        return seq[self.i(0, len(seq) - 1)]

    def chance(self, pct):
        return self.i(0, 99) < pct

    def dvalue(self, name, k=None):
        a = ARR[name]
        if k is None:
            k = self.i(0, 400)
        v = a["lo"] + (a["hi"] - a["lo"]) * (k % 401) / 400.0
        return float("%.5g" % v)

    def box(self):
        m = self.m
        mode = self.i(0, 9)
        b = []
        for d in (m.nx, m.ny, m.nz):
            x, y = self.i(0, d - 1), self.i(0, d - 1)
            if mode == 0:
                x, y = 0, d - 1
            b += [min(x, y), max(x, y)]
        return b

    def optbox(self):
        return None if self.chance(30) else self.box()

    def data_vals(self, name, ncell, allow_null):
        a = ARR[name]
        k0 = self.i(0, 400)
        stride = self.pick([1, 7, 13, 37, 0, 3])
        if a["typ"] == "i":
            mod = self.pick([2, 3, 3, 4])
            if stride == 0:
                vals = [(k0 % mod) + 1] * ncell
            else:
                vals = [((k0 + t * stride) % mod) + 1 for t in range(ncell)]
        else:
            vals = [self.dvalue(name, k0 + t * stride) for t in range(ncell)]
        if allow_null and self.chance(35):
            for _ in range(self.i(1, 2)):
                s = self.i(0, ncell - 1)
                ln = self.i(1, max(1, ncell // 3))
                for t in range(s, min(ncell, s + ln)):
                    vals[t] = None
        return vals

    def scalar_value(self, name, kind):
        a = ARR[name]
        if a["typ"] == "i":
            if kind in ("ADD", "ADDREG", "MULTIPLY", "MULTIREG"):
                return self.i(1, 2)
            return self.i(1, 4)
        if kind in ("MULTIPLY", "MULTIREG"):
            return self.pick([0.5, 2.0, 1.5, 0.1, 3.0, 1.25, 0.75])
        if kind in ("ADD", "ADDREG"):
            span = a["hi"] - a["lo"]
            v = float("%.4g" % (span * self.pick([0.05, 0.1, 0.25, 0.5])))
            if not a["pos"] and self.chance(30):
                v = -v
            return v
        return self.dvalue(name)

    def try_record(self, kw, rec, first):
        """apply the record on the model if it is valid there; True on success"""
        m = self.m
        saved = list(m.kwbox) if getattr(m, "kwbox", None) is not None else None
        try:
            m.exec_record(kw, rec, first)
            return True
        except Invalid:
            if not first:
                m.kwbox = saved
            return False

    def emit(self, op):
        self.m.exec_op(op)
        self.prog.append(op)

    def sources(self, dst, need_exists=True):
        m = self.m
        return [x for x in ARR if x != dst and ARR[x]["typ"] == ARR[dst]["typ"] and ARR[x]["dim"] == ARR[dst]["dim"]
                and x in m.A and (m.A[x].exists or not need_exists)]

    def operate_rec(self, names, region):
        m = self.m
        dcands = [x for x in names if ARR[x]["typ"] == "d" and not ARR[x]["pos"] and ARR[x]["dim"] != "Temperature"]
        if not dcands:
            return None
        dst = self.pick(dcands)
        fn = self.pick(OPERATE_FUNCS)
        cands = [x for x in ARR if ARR[x]["typ"] == "d" and x in m.A and ARR[x]["dim"] != "Temperature"]
        if fn in LINEAR_FUNCS:
            cands = [x for x in cands if ARR[x]["dim"] == ARR[dst]["dim"]]
        else:
            cands = [x for x in cands if ARR[x]["dim"] == "1"]
        if not cands:
            return None
        src = self.pick(cands)
        a = self.pick([0.5, 2.0, 1.5, 0.25, 1.0, 3.0])
        b = self.pick([0.5, 2.0, 1.0, 0.1, 3.0])
        if fn in ("MAXLIM", "MINLIM"):
            a = self.dvalue(src)
        if fn == "ADDX":
            a = float("%.4g" % (self.dvalue(dst) * 0.25))
        if fn == "MULTA":
            b = float("%.4g" % (self.dvalue(dst) * 0.25))
        if fn == "SLOG":
            a, b = self.pick([0.0, -1.0, 0.5]), self.pick([1.0, 0.5, -1.0])
        if region:
            return {"dst": dst, "reg": self.i(1, 3), "fn": fn, "src": src, "a": a, "b": b,
                    "set": self.pick([None, None, "OPERNUM", "FLUXNUM", "MULTNUM"])}
        return {"dst": dst, "box": self.optbox(), "fn": fn, "src": src, "a": a, "b": b}

    def gen_section(self, sec, nops, nfocus):
        m = self.m
        self.prog = []
        m.begin_section(sec)
        names = sec_arrays(sec)
        if sec == "EDIT":
            # PORV and MULTPV are not mixed in one EDIT section (their interplay is not asserted)
            names = ["PORV"] if self.edit_porv else [x for x in names if x != "PORV"]
        if sec == "REGIONS" and m.props_used_opernum and not self.known_defects:
            names = [x for x in names if x != "OPERNUM"]      # see "regions-before-props"
        focus = [self.pick(names) for _ in range(nfocus)]

        def target():
            return self.pick(focus) if self.chance(70) else self.pick(names)

        count = 0
        if sec == "GRID":
            self.emit({"op": "DATA", "kw": "PORO", "vals": self.data_vals("PORO", m.n, False), "rle": True})
            for reg in ("FLUXNUM", "OPERNUM", "MULTNUM"):
                if self.chance(60):
                    self.emit({"op": "DATA", "kw": reg, "vals": self.data_vals(reg, m.n, False), "rle": self.chance(50)})
                    count += 1
        kinds = ["DATA", "DATA", "EQUALS", "SCALAR", "SCALAR", "SCALAR", "COPY", "BOX", "REGOP", "REGOP"]
        if any(ARR[x]["typ"] == "d" for x in names) and sec != "EDIT":
            kinds += ["OPERATE", "OPERATER"]
        while count < nops:
            count += 1
            kind = self.pick(kinds)
            nrec = self.pick([1, 1, 2, 3])
            if kind == "BOX":
                if m.box != m.full and self.chance(50):
                    self.emit({"op": "ENDBOX"})
                else:
                    self.emit({"op": "BOX", "box": self.box()})
                continue
            if kind == "DATA":
                name = target()
                op = {"op": "DATA", "kw": name, "vals": self.data_vals(name, len(m.cells(m.box)), True),
                      "rle": self.chance(50)}
                try:
                    self.emit(op)
                    continue
                except Invalid:
                    kind = "EQUALS"
            recs = []
            kw = None
            if kind == "SCALAR":
                kw = self.pick(["ADD", "MULTIPLY", "MINVALUE", "MAXVALUE"])
                if kw in ("MINVALUE", "MAXVALUE") and sec not in ("GRID", "EDIT", "PROPS"):
                    kw = self.pick(["ADD", "MULTIPLY"])
                for _ in range(nrec):
                    name = target()
                    if gated(kw, name) and not self.known_defects:
                        continue
                    rec = {"kw": name, "v": self.scalar_value(name, kw), "box": self.optbox()}
                    if self.try_record(kw, rec, not recs):
                        recs.append(rec)
            elif kind == "COPY":
                kw = "COPY"
                for _ in range(nrec):
                    dst = target()
                    cands = self.sources(dst)
                    if not cands:
                        continue
                    rec = {"src": self.pick(cands), "dst": dst, "box": self.optbox()}
                    if self.try_record(kw, rec, not recs):
                        recs.append(rec)
            elif kind in ("OPERATE", "OPERATER"):
                kw = kind
                for _ in range(nrec):
                    rec = self.operate_rec(names, kind == "OPERATER")
                    if rec is not None and self.try_record(kw, rec, not recs):
                        recs.append(rec)
            elif kind == "REGOP":
                kw = self.pick(["EQUALREG", "ADDREG", "MULTIREG", "COPYREG"])
                # "coupled" keyword: every record selects by the same (region set, id) and one of the earlier records
                # rewrites that region array itself, so that later records of the SAME keyword must see the new regions
                csets = [k for k, arr in REGSETS.items() if arr in names and not gated(kw, arr)]
                if kw != "COPYREG" and csets and self.chance(30):
                    setl = self.pick(csets)
                    rid = self.i(1, 3)
                    others = [x for x in names if not gated(kw, x) and x != REGSETS[setl]]
                    plan = ([self.pick(others)] if others and self.chance(50) else []) + [REGSETS[setl]] + \
                           [self.pick(others) for _ in range(self.i(1, 2)) if others]
                    for dst in plan:
                        rec = {"kw": dst, "v": self.scalar_value(dst, kw), "reg": rid, "set": setl}
                        if self.try_record(kw, rec, not recs):
                            recs.append(rec)
                    nrec = 0
                for _ in range(nrec):
                    dst = target()
                    if gated(kw, dst) and not self.known_defects:
                        dd = [x for x in names if not gated(kw, x)]
                        if not dd:
                            continue
                        dst = self.pick(dd)
                    if gated(kw, dst) and ARR[dst]["typ"] == "i" and dst in REGSETS.values():
                        continue     # an ignored operation on a region set would change later selections
                    setl = self.pick([None, "M", "F", "O"])
                    rid = self.i(1, 3)
                    if kw == "COPYREG":
                        cands = self.sources(dst)
                        if not cands:
                            continue
                        rec = {"src": self.pick(cands), "dst": dst, "reg": rid, "set": setl}
                    else:
                        rec = {"kw": dst, "v": self.scalar_value(dst, kw), "reg": rid, "set": setl}
                    if self.try_record(kw, rec, not recs):
                        recs.append(rec)
            if recs:
                self.prog.append({"op": kw, "recs": recs})
                continue
            # nothing of the drawn kind was possible in this state: EQUALS (always possible)
            for _ in range(nrec):
                name = target()
                rec = {"kw": name, "v": self.scalar_value(name, "EQUALS"), "box": self.optbox()}
                if self.try_record("EQUALS", rec, not recs):
                    recs.append(rec)
            if recs:
                self.prog.append({"op": "EQUALS", "recs": recs})
        if m.box != m.full:
            self.emit({"op": "ENDBOX"})
        m.end_section()
        return self.prog

    def case(self):
        nx, ny, nz = self.i(1, 6), self.i(1, 6), self.i(1, 6)
        n = nx * ny * nz
        style = self.i(0, 9)
        bits = self.draw(st.integers(0, 2 ** n - 1))
        if style <= 3:
            bits |= self.draw(st.integers(0, 2 ** n - 1))
        if style <= 1:
            bits |= self.draw(st.integers(0, 2 ** n - 1))
        act = [(bits >> g) & 1 for g in range(n)]
        if style == 9:
            act = [1] * n
        if style == 8 and nz > 1:                      # a fully inactive layer
            k = self.i(0, nz - 1)
            act = [0 if g // (nx * ny) == k else 1 for g in range(n)]
        if not any(act):
            act[self.i(0, n - 1)] = 1
        units = self.pick(["METRIC", "FIELD", "LAB", "PVT-M", "METRIC"])
        nrmult = self.pick([0, 0, INT_MAX])
        self.known_defects = self.chance(8)            # cases that may touch known library defects
        self.edit_porv = self.chance(50)
        self.m = Model([nx, ny, nz], units, nrmult)
        total = self.i(4, 25)
        prog = {}
        weights = {"GRID": 4, "EDIT": 1, "PROPS": 2, "REGIONS": 2, "SOLUTION": 2}
        secs = [s for s in SECTIONS if s == "GRID" or self.chance(60)]
        wsum = sum(weights[s] for s in secs)
        for sec in SECTIONS:
            if sec not in secs:
                self.m.begin_section(sec)
                self.m.end_section()
                continue
            nops = max(1, total * weights[sec] // wsum)
            prog[sec] = self.gen_section(sec, nops, self.i(1, 3))
        return {"dims": [nx, ny, nz], "actnum": act, "units": units, "nrmult": nrmult,
                "gridopts": nrmult > 0 or self.chance(40),
                "dxyz": [self.pick([10.0, 25.0, 7.5]), self.pick([10.0, 20.0]), self.pick([2.0, 5.0, 1.5])],
                "prog": prog,
                # order in which the arrays are asked for (0 = a fixed order): arrays are created lazily on first access,
                # the answers must not depend on which one was asked for first
                "qorder": self.i(1, 10 ** 6) if self.chance(50) else 0}


@st.composite
def cases(draw, tier):
    return Gen(draw, tier).case()


# --------------------------------------------------------------------------- the check
def targets_of(op):
    k = op["op"]
    if k == "DATA":
        return [op["kw"]]
    if k in ("BOX", "ENDBOX"):
        return []
    return [r.get("kw") or r.get("dst") for r in op["recs"]]


def same(a, b):
    return a == b or (a != a and b != b)


class C12(Check):
    ID = "C12"
    PROBE_GROUP = "fieldprops"
    LEVEL = "exploration"
    RULE = ("random grid (1..6)^3, random ACTNUM, unit system, GRIDOPTS default region set; a program of <= 25 "
            "keywords over GRID/EDIT/PROPS/REGIONS/SOLUTION drawn while a reference interpreter tracks per-cell "
            "definedness so that every operation is inside the library's accepted domain; non-trivial = some active "
            "cell has active index != global index, >= 1 sub-box or region operation and >= 3 operations on one "
            "array; distinct by (operation multiset, box shapes, ACTNUM pattern)")
    ASSUMPTIONS = [
        "Semantics taken from the Eclipse manual wording the property paraphrases: EQUALS assigns, ADD adds a shift (a "
        "difference: unit factor, no offset), MULTIPLY multiplies by a dimensionless factor, MINVALUE/MAXVALUE clamp from "
        "below/above, COPY copies the source cells of the box, OPERATE functions R=f(R,X,alpha,beta) as tabulated in the "
        "manual, region variants act on the cells whose region array currently holds the given id; a defaulted entry (n*) "
        "of an array keyword keeps what the cell had; a record without box uses the box of the previous record of the "
        "same keyword, the first record the current BOX (whole grid after ENDBOX / at the start of a section).",
        "From comments in FieldProps.cpp/.hpp (conventions the statement leaves open): region set defaults to MULTNUM "
        "when GRIDOPTS NRMULT > 0, else FLUXNUM; OPERATER defaults to OPERNUM; MULT* and MULTPV entered in EDIT are "
        "collected separately and multiplied onto the GRID values at the end of EDIT; scalar defaults NTG=1, MULT*=1, "
        "MULTPV=1, MULTNUM=SATNUM=PVTNUM=EQLNUM=FIPNUM=ENDNUM=1; region operations do not reach inactive cells of "
        "global-storage arrays (MULTZ, MULTZ-, PERMX/Y/Z).",
        "Values are compared in SI with an independent unit table (exact rationals from the physical definitions); the "
        "tolerance is a propagated bound: 8 ulp per converted deck value, 1 ulp per arithmetic operation, interval "
        "evaluation for pow/log/inverse, + 2 ulp.",
        "Not asserted: partially defaulted boxes (some of I1..K2 given), an open BOX across a section end, TRAN*, "
        "MULTREGT/MULTREGP, derived PORV (only cells assigned in EDIT are compared), PORV mixed with MULTPV in EDIT, "
        "saturation end-point and TEMPI default values (cells keep 'unknown default'), top-layer distribution of "
        "incompletely given PORO/PERM* (covered by the all-active comparison only), OPERATE with non-linear functions on "
        "dimensioned arrays or on TEMPI (the library works in SI; the manual semantics is in deck units), COPY/OPERATE/"
        "region operations on MULT* in EDIT, the SCHEDULE section, value statuses (defaulted()).",
        "Operations the library legitimately refuses (operating on cells without a value, COPY from cells without a deck "
        "value, incomplete region arrays, source/target storage mismatch) are never generated: the generator runs the "
        "interpreter and requires the precondition on ALL global cells, so that the masked and the all-active run accept "
        "the same program.",
    ]
    EXAMPLES = {"quick": 250, "thorough": 4000}
    MIN_EVALS = {"quick": 600, "thorough": 5000}
    TIME_CAP = {"quick": 160, "thorough": 1050}
    LEVEL_TEXT = ("Generated-program search with two independent oracles.  Every generated program (<= 25 keywords: array "
                  "data in the whole grid or a BOX with n* entries, BOX/ENDBOX, EQUALS, ADD, MULTIPLY, MINVALUE, MAXVALUE, "
                  "COPY, OPERATE with all 14 functions, EQUALREG, ADDREG, MULTIREG, COPYREG, OPERATER with region sets "
                  "M/F/O/default, over 42 integer and floating arrays of GRID, EDIT, PROPS, REGIONS and SOLUTION, four "
                  "unit systems) is run through EclipseState twice: with the generated ACTNUM and all-active.  (i) A "
                  "reference interpreter over global cells predicts, for all 42 arrays, whether get_double/get_int can "
                  "be read and the value of every active cell within a propagated rounding bound, plus get_global_* in "
                  "active cells and, for global-storage arrays, in inactive cells.  (ii) Every active cell of every "
                  "array must be bit-identical in the masked and the all-active run.")
    LEVEL_NOTE = ("Sampled, not exhaustive.  The interpreter is mine: where it and the library agree on a wrong reading of "
                  "the manual, only oracle (ii) still bites.  Five defects of the library are suppressed by signature "
                  "(known_findings.jsonl); the combinations that trigger them are generated in 8 % of the cases only and "
                  "a mismatch is attributed to them only on arrays that such an operation influenced.  Trusted: the "
                  "Python interpreter, the unit table, glibc pow/log being the same function in Python and in the library.")
    TECHNIQUE = ("property-based testing (Hypothesis, stateful generation against a reference interpreter), "
                 "differential comparison with the interpreter and a metamorphic all-active run")

    def floors(self, tier):
        f = {"nontrivial": 0.10, "actnum:active-index!=global-index": 0.30, "data-defaulted-entries": 0.10,
             "box-inherited-from-record": 0.05, "box-inherited-from-BOX": 0.03, "data-in-subbox": 0.03,
             "edit-multiplier": 0.03, "global-storage-target": 0.10, "multi-record": 0.15}
        for k in SCALAR_OPS + REG_OPS + ["COPY", "COPYREG", "OPERATE", "OPERATER", "BOX"]:
            f["op:" + k] = 0.03
        for sname in SECTIONS:
            f["sec:" + sname] = 0.15
        for u in UNITS:
            f["units:" + u] = 0.05
        return f

    def strategy(self, tier):
        return cases(tier)

    def known_key(self, case, viol):
        k = viol.get("key")
        return None if k in IGNORE_KNOWN else k

    # ------------------------------------------------------------ classification
    def classify(self, case):
        act = case["actnum"]
        nx, ny, nz = case["dims"]
        labels = ["units:" + case["units"], "default-region:" + ("MULTNUM" if case["nrmult"] else "FLUXNUM" +
                                                               ("(GRIDOPTS NRMULT=0)" if case.get("gridopts") else ""))]
        shifted = any(a and not all(act[:g]) for g, a in enumerate(act))
        if all(act):
            labels.append("actnum:all-active")
        elif shifted:
            labels.append("actnum:active-index!=global-index")
        else:
            labels.append("actnum:trailing-inactive-only")
        for k in range(nz):
            if not any(act[k * nx * ny:(k + 1) * nx * ny]):
                labels.append("actnum:inactive-layer")
                break
        full = [0, nx - 1, 0, ny - 1, 0, nz - 1]
        opms = []
        shapes = []
        per_array = {}
        sub = False
        for sec in SECTIONS:
            ops = case["prog"].get(sec, [])
            if ops:
                labels.append("sec:" + sec)
            inbox = False
            for op in ops:
                k = op["op"]
                opms.append(k)
                labels.append("op:" + k)
                for t in targets_of(op):
                    per_array[t] = per_array.get(t, 0) + 1
                    if sec == "EDIT" and t in EDIT_MULT:
                        labels.append("edit-multiplier")
                    if ARR[t]["glob"]:
                        labels.append("global-storage-target")
                    if ARR[t]["typ"] == "i":
                        labels.append("int-target")
                if k in REG_OPS and len(op.get("recs", [])) >= 2:
                    rr = op["recs"]
                    for i_, r_ in enumerate(rr[:-1]):
                        if r_.get("set") in REGSETS and r_.get("kw") == REGSETS[r_["set"]] and \
                                any(q.get("set") == r_["set"] and q.get("reg") == r_["reg"] for q in rr[i_ + 1:]):
                            labels.append("regop-rewrites-own-region-set-midway")
                            break
                if k == "BOX":
                    inbox = op["box"] != full
                    shapes.append(tuple(op["box"]))
                    if inbox:
                        sub = True
                elif k == "ENDBOX":
                    inbox = False
                elif k == "DATA":
                    if inbox:
                        labels.append("data-in-subbox")
                    if any(v is None for v in op["vals"]):
                        labels.append("data-defaulted-entries")
                else:
                    if len(op["recs"]) > 1:
                        labels.append("multi-record")
                    seen_box = False
                    for r in op["recs"]:
                        if "fn" in r:
                            labels.append("fn:" + r["fn"])
                        if "reg" in r:
                            sub = True
                            labels.append("regset:" + (r.get("set") or "default"))
                        elif r.get("box") is None:
                            labels.append("box-inherited-from-record" if seen_box else
                                          "box-inherited-from-BOX" if inbox else "box-default-whole-grid")
                            if seen_box or inbox:
                                sub = True
                        else:
                            seen_box = True
                            shapes.append(tuple(r["box"]))
                            if r["box"] != full:
                                sub = True
        many = max(per_array.values()) >= 3 if per_array else False
        nontriv = shifted and sub and many
        labels = sorted(set(labels))
        if nontriv:
            labels.append("nontrivial")
        fp = sha([sorted(opms), shapes, act], 16)
        return nontriv, fp, labels

    def sample_view(self, case):
        return {"dims": case["dims"], "actnum": "".join(map(str, case["actnum"])), "units": case["units"],
                "nrmult": case["nrmult"], "deck_from_GRID": render(case).split("GRID\n", 1)[1][:1400]}

    # ------------------------------------------------------------ oracle
    def observe(self, P, case, all_active):
        dn = [n for n in ARR if ARR[n]["typ"] == "d"]
        inn = [n for n in ARR if ARR[n]["typ"] == "i"]
        q = case.get("qorder", 0)
        if q:
            import random as _r         # (a pure function of the drawn number: no randomness of its own)
            _r.Random(q).shuffle(dn)
            _r.Random(q + 1).shuffle(inn)
        r = P.call("fieldprops", deck=render(case, all_active), doubles=dn, ints=inn, ints_first=bool(q % 2), **{"global": True})
        out = {}
        for rec in r["doubles"]:
            d = rec["data"]
            g = rec.get("global")
            out[rec["name"]] = {"data": [hexf(x) for x in d] if isinstance(d, list) else None,
                                "exc": d.get("exc") if isinstance(d, dict) else None,
                                "global": [hexf(x) for x in g] if isinstance(g, list) else None}
        for rec in r["ints"]:
            d = rec["data"]
            g = rec.get("global")
            out[rec["name"]] = {"data": d if isinstance(d, list) else None,
                                "exc": d.get("exc") if isinstance(d, dict) else None,
                                "global": g if isinstance(g, list) else None}
        return r, out

    def check(self, case, ctx):
        nx, ny, nz = case["dims"]
        n = nx * ny * nz
        act = case["actnum"]
        m = Model(case["dims"], case["units"], case["nrmult"])
        try:
            m.run(case)
        except Invalid as e:
            raise Discard(str(e))
        P = ctx.P
        r1, o1 = self.observe(P, case, False)
        r2, o2 = self.observe(P, case, True)
        amap = [g for g in range(n) if act[g]]

        def V(rule, detail, key=None):
            return {"rule": rule, "detail": detail, "key": key}

        if r1["actnum"] != act or r1["active_map"] != amap:
            return V("active cells of the state differ from ACTNUM although every pore volume factor is positive",
                     {"actnum": r1["actnum"], "want": act})
        if r2["nactive"] != n:
            return V("all-active run has inactive cells", r2["actnum"])

        keyed = []          # violations on arrays that a known defect may have influenced: reported last
        for a in m.A.values():
            if a.opaque:
                ctx.label("oracle-ii-only:top-layer-distribution")
            for t in a.taint | (set(k for k in a.gdiff if k) if a.gdiff else set()):
                ctx.label("touches-known-defect:" + t)
        ctx.label("arrays-compared-with-interpreter", sum(1 for nm in ARR if o1[nm]["data"] is not None))
        ctx.label("arrays-compared-metamorphic", sum(1 for nm in ARR if o1[nm]["data"] is not None and o2[nm]["data"] is not None))

        def report(name, rule, detail, key=None):
            a = m.A.get(name)
            taint = sorted(a.taint) if a is not None else []
            key = key or (taint[0] if taint else None)
            if key in IGNORE_KNOWN:
                key = None
            v = V(rule, dict(detail, array=name), key)
            if key:
                keyed.append(v)
                return None
            return v

        for name, info in ARR.items():
            a = m.A.get(name)
            lib, lib2 = o1[name], o2[name]
            # ---- (i) reference interpreter
            if a is None:
                defined = info["default"] is not None or info["unk"]
                st_ = [1 if defined else 0] * n
                val = [info["default"]] * n
                err = [0.0] * n
            else:
                st_, val, err = a.st, a.val, a.err
            readable = all(st_[g] for g in amap)
            opaque = a is not None and a.opaque
            if opaque:
                pass
            elif readable != (lib["data"] is not None):
                v = report(name, "reference interpreter: array %s be readable (every active cell has a value)"
                           % ("should" if readable else "should not"), {"library": lib["exc"] or "readable"})
                if v:
                    return v
                continue
            if lib["data"] is not None and not opaque:
                if len(lib["data"]) != len(amap):
                    return V("array size differs from the number of active cells", {"array": name, "size": len(lib["data"])})
                for ai, g in enumerate(amap):
                    if val[g] is None:
                        continue
                    got = lib["data"][ai]
                    if info["typ"] == "i":
                        ok = got == val[g]
                    else:
                        # err: propagated bound (unit conversion 8 ulp per deck value, one rounding per
                        # operation, see Model); + 2 ulp for the final comparison
                        ok = abs(got - val[g]) <= err[g] + 2 * ulp(val[g])
                    if not ok:
                        v = report(name, "reference interpreter: value in an active cell",
                                   {"global_index": g, "ijk": [g % nx, g // nx % ny, g // (nx * ny)], "active_index": ai,
                                    "library": got, "reference": val[g], "bound": err[g]})
                        if v:
                            return v
                        break
                # get_global_*: active cells must repeat get_*; inactive cells of global-storage arrays hold
                # the value the operations gave them (unless a region operation touched the array: the
                # library documents that those do not reach inactive cells)
                gl = lib["global"]
                if gl is not None:
                    if len(gl) != n:
                        return V("get_global size", {"array": name, "size": len(gl)})
                    deferred = set()
                    for ai, g in enumerate(amap):
                        if not same(gl[g], lib["data"][ai]):
                            # cells where a known defect explains the difference carry its key (Arr.gdiff)
                            k = a.gdiff[g] if (a is not None and a.gdiff is not None) else None
                            if k in deferred:
                                continue
                            v = report(name, "get_global differs from get in an active cell",
                                       {"global_index": g, "get_global": gl[g], "get": lib["data"][ai]}, k)
                            if v:
                                return v
                            deferred.add(k)
                    if info["glob"] and (a is None or a.gexact):
                        for g in range(n):
                            if act[g] or not st_[g] or val[g] is None:
                                continue
                            if not abs(gl[g] - val[g]) <= err[g] + 2 * ulp(val[g]):
                                v = report(name, "reference interpreter: get_global value in an inactive cell of a global-storage array",
                                           {"global_index": g, "library": gl[g], "reference": val[g]})
                                if v:
                                    return v
                                break
                else:
                    v = report(name, "get_global throws although get works", {})
                    if v:
                        return v
            # ---- (ii) metamorphic: all-active run, same cells, bit for bit
            mkey = "top-distribute-inactive-source" if opaque and "top-distribute-inactive-source" not in IGNORE_KNOWN else None
            if lib["data"] is not None and lib2["data"] is not None:
                for ai, g in enumerate(amap):
                    if not same(lib["data"][ai], lib2["data"][g]):
                        return V("metamorphic: value in an active cell depends on which other cells are inactive",
                                 {"array": name, "global_index": g, "masked_run": lib["data"][ai], "all_active_run": lib2["data"][g]},
                                 mkey)
            elif lib["data"] is None and lib2["data"] is not None:
                v = V("metamorphic: array readable on the all-active grid but not on the masked grid",
                      {"array": name, "masked_run": lib["exc"]}, mkey)
                if mkey:
                    keyed.append(v)
                else:
                    return v
            elif lib["data"] is not None and lib2["data"] is None:
                if all(st_) and not opaque:
                    return V("metamorphic: array readable on the masked grid but not on the all-active grid although "
                             "every cell has a value", {"array": name, "all_active_run": lib2["exc"]})
        if keyed:
            return keyed[0]
        return None
