"""C16 -- automatic differentiation (opm/material/densead) returns exact values and
chain-rule derivatives in every variant.

Engine: rapidcheck, in process (harness/rc_c16.cpp).  This module only builds the
binary from /repo's working tree, shards it over 16 processes, confirms a shrunk
counter-example three times, matches known findings and writes the evidence.

Where generator and oracle live
-------------------------------
* generator          harness/rc_c16.cpp `Builder` / `genTree()` (rapidcheck gen::exec; every
                     gen::inRange is wrapped in gen::resize)
* reference model    `scalarOp()` + `refNode()` + `refLeaf()` in the same file: <cmath> on plain
                     doubles and textbook dual numbers (never reads Math.hpp)
* oracle             `runVariant()` (node-local), `checkTree()` (end-to-end, cross-variant)
* classification     `account()` in the binary, mirrored by `C16.classify()` below for replayed cases

Findings on the unchanged tree (all listed in known_findings.jsonl, see report):
  div-by-scalar-value-uses-reciprocal      E / s and E /= s compute value()*(1.0/s): up to 1-2 ulp away
                                           from value()/s and from E / createConstant(s)
  pow-scalar-base-value-via-exp-log        pow(s, E).value() is exp(log(s)*e), not std::pow(s,e): differs
                                           from pow(createConstant(s), E) by ~|e ln s| ulp
  scalar-over-dynamic-evaluation-garbage   `s / DynamicEvaluation`: the generic operator/ builds
                                           `Evaluation tmp(a)`, which for the dynamic class selects the
                                           explicit Evaluation(int numDerivatives) constructor -> assert /
                                           garbage
  atan2-scalar-first-does-not-compile      atan2(const ValueType&, const Evaluation&) uses x.value() on a double
  opm-hyperbolic-wrappers-do-not-compile   Opm::sinh/cosh/asinh/acosh(Evaluation) call MathToolbox<Evaluation>::sinh
                                           ... which do not exist
The two compile-time findings are detected by compile probes on every run; once /repo
compiles them the corresponding operations are switched on in the generator automatically.
"""
import glob
import hashlib
import json
import os
import shutil
import subprocess
import sys
import tempfile
import time

from vlib import build
from vlib.runner import (Check, write_evidence, merge, load_known, sha, OUT, REGRESS, _trim)

SRC = os.path.join(build.HARNESS, "rc_c16.cpp")

# ---------------------------------------------------------------------------
# compile probes: overloads the property names but that may not be instantiable
# ---------------------------------------------------------------------------
PROBES = {
    "atan2-scalar-first-does-not-compile": dict(
        define="C16_HAVE_ATAN2_SE",
        what="atan2(scalar, Evaluation) (Math.hpp, third atan2 overload) cannot be instantiated",
        src=("#include <opm/material/densead/Evaluation.hpp>\n"
             "#include <opm/material/densead/Math.hpp>\n"
             "typedef Opm::DenseAd::Evaluation<double, 3> E;\n"
             "E f(const E& x) { return Opm::DenseAd::atan2(1.5, x); }\n")),
    "opm-hyperbolic-wrappers-do-not-compile": dict(
        define="C16_HAVE_OPM_HYP",
        what="Opm::sinh/cosh/asinh/acosh(Evaluation) (MathToolbox.hpp wrappers) cannot be instantiated",
        src=("#include <opm/material/densead/Evaluation.hpp>\n"
             "#include <opm/material/densead/Math.hpp>\n"
             "typedef Opm::DenseAd::Evaluation<double, 3> E;\n"
             "E f(const E& x) { return Opm::sinh(x) + Opm::cosh(x) + Opm::asinh(x) + Opm::acosh(x); }\n")),
}

NONLINEAR = {"MUL", "DIV", "CMUL", "CDIV", "SDIV", "SELFMUL", "SELFDIV", "SQRT", "EXP", "LOG", "LOG10", "SIN",
             "COS", "TAN", "ASIN", "ACOS", "ATAN", "SINH", "COSH", "ASINH", "ACOSH", "ABS", "POWEE", "POWES",
             "POWSE", "ATAN2EE", "ATAN2ES", "ATAN2SE", "MINEE", "MINES", "MINSE", "MAXEE", "MAXES", "MAXSE"}
ALL_OPS = ["VAR", "CONST", "DENSE", "COPY", "ASSIGN", "MOVE", "NEG", "ADD", "SUB", "MUL", "DIV", "CADD", "CSUB",
           "CMUL", "CDIV", "ADDS", "SUBS", "MULS", "DIVS", "CADDS", "CSUBS", "CMULS", "CDIVS", "SADD", "SSUB",
           "SMUL", "SDIV", "SELFADD", "SELFMUL", "SELFDIV", "SQRT", "EXP", "LOG", "LOG10", "SIN", "COS", "TAN",
           "ASIN", "ACOS", "ATAN", "SINH", "COSH", "ASINH", "ACOSH", "ABS", "POWEE", "POWES", "POWSE", "ATAN2EE",
           "ATAN2ES", "ATAN2SE", "MINEE", "MINES", "MINSE", "MAXEE", "MAXES", "MAXSE"]


def _leaf_tree(nodes, x0=0.5, dynN=3):
    """a hand-written replay case (same JSON the binary prints)"""
    x = [float(x0).hex()] + [float(0.25 * (i + 1)).hex() for i in range(1, 16)]
    return {"nv": 1, "dynN": dynN, "x": x, "nodes": nodes, "expr": "canned"}


def _node(op, a=-1, b=-1, s=0.0, var=0, tb=0):
    return {"op": op, "a": a, "b": b, "s": float(s).hex(), "var": var, "tb": tb}


# findings whose presence is re-established on every run with a canned input, because the search
# binary has to avoid the operation while the finding is present (it aborts the process)
CANNED = {
    "scalar-over-dynamic-evaluation-garbage": _leaf_tree([_node("VAR"), _node("SDIV", a=0, s=2.5)], dynN=3),
}


def _cflags():
    t = build.TREES["plain"]
    return t["flags"].split() + build.include_flags("plain")


def run_probe(key):
    """-> (compiles: bool, compiler output)"""
    os.makedirs(build.BUILD, exist_ok=True)
    d = tempfile.mkdtemp(prefix="c16probe_", dir=os.environ.get("VERIF_TMPDIR") or "/tmp")
    try:
        src = os.path.join(d, "p.cpp")
        with open(src, "w") as f:
            f.write(PROBES[key]["src"])
        r = subprocess.run([build.TREES["plain"]["cxx"], "-std=gnu++17", "-fsyntax-only", src] + _cflags(),
                           stdout=subprocess.PIPE, stderr=subprocess.STDOUT, text=True)
        return r.returncode == 0, r.stdout[-3000:]
    finally:
        shutil.rmtree(d, ignore_errors=True)


class C16(Check):
    ID = "C16"
    PROBE = None
    PROBE_GROUP = "ad"          # unused: the engine is rapidcheck in process, not the probe
    SHARDS = 16
    # trees PER SHARD (16 shards); every tree is evaluated by 18 Evaluation variants
    EXAMPLES = {"quick": 60000, "thorough": 625000}
    MIN_EVALS = {"quick": 300000, "thorough": 5000000}
    TIME_CAP = {"quick": 170, "thorough": 1100}
    LEVEL = "exploration"
    RULE = ("rapidcheck generates expression trees (nominal depth 2..6, growing with rapidcheck's size; domain "
            "adapters may add levels) over 54 node kinds: leaves createVariable / createConstant / an Evaluation "
            "with a full random gradient (setDerivative); copy, assignment, move, unary minus; + - * / as "
            "Evaluation o Evaluation, Evaluation o scalar, scalar o Evaluation and as compound assignment with "
            "both operand kinds, self-aliased x+=x, x*=x, x/=x; sqrt exp log log10 sin cos tan asin acos atan "
            "sinh cosh asinh acosh abs; pow(E,E) pow(E,s) pow(s,E); atan2(E,E) atan2(E,s); min/max in 3 operand "
            "forms; functions are reached both as Opm::DenseAd::f and through the Opm::f MathToolbox wrappers. "
            "Inputs in [-3,3]; every function argument is moved into the function's domain by ordinary scalar "
            "add/multiply/negate nodes chosen from the generator's own value computation (no rejection). The "
            "same tree is run by a templated interpreter for Evaluation<double,N> N=1..12 (specialised), "
            "13..16 (generic) and two dynamically sized types (inline and heap storage) with a random run-time "
            "size 1..16; variables without a slot in a variant are constants there. Non-trivial: depth >= 3, "
            ">= 2 active derivative slots from >= 2 variables or a dense leaf, and a non-linear node; distinct "
            "by hash of the tree shape (node kinds, wiring, variable indices, call route).")
    ASSUMPTIONS = [
        "value type double only (float / nested Evaluation not instantiated)",
        "arguments are kept away from kinks, poles and ill-conditioned derivative formulas: |x|<=0.9 for "
        "asin/acos, x>=1.1 for acosh, |cos x|>=0.1 for tan, divisors / atan2 second arguments |x|>=0.05, abs and "
        "atan2 first arguments |x|>=0.01 (branch cut), pow bases in [0.05,20] (plus base exactly 0 with exponent "
        ">=1 for pow(E,s)), min/max operands >= 1 % apart, |x|<=10 for exp/sinh/cosh",
        "value() is compared with ==, so -0.0 and +0.0 count as the same value (`s - E` returns -0.0 when "
        "s == E.value())",
        "built with g++ -O1 -ffp-contract=off on x86-64 (SSE2): 'exact value' means bit-identical to the <cmath> "
        "call / IEEE operation on the same operand in this build",
        "scalar operands are of type double",
        "operations /repo cannot compile (atan2(scalar,E), Opm::sinh... wrappers) are probed by compilation "
        "only and join the generator automatically once they compile",
    ]
    LEVEL_TEXT = ("Generated-input search (rapidcheck) over random expression trees evaluated by all 18 Evaluation "
                  "instantiations in one process, decided by an independent textbook dual-number model: every "
                  "node's value() must be bit-identical to the scalar <cmath>/IEEE result on the operand values and "
                  "every derivative within 16 ulp of the chain rule relative to the sum of |terms|; the whole tree "
                  "is additionally compared with an end-to-end 16-wide reference evaluation and across variants "
                  "(root values bit-identical). Mixed scalar forms are checked against the all-dual form.")
    LEVEL_NOTE = ("Sampling, not proof: about 6e5 (quick) / 1e7 (thorough) trees x 18 variants. Trusted: glibc libm "
                  "as the meaning of the scalar functions, the 16-ulp-per-node tolerance derivation in "
                  "rc_c16.cpp. Not covered: float, nested AD, arguments at kinks/poles (pow at base 0, atan2 with "
                  "second argument 0, abs/min/max ties), comparison operators, serializeOp/printing.")
    TECHNIQUE = ("property-based testing with rapidcheck in process: random expression trees, templated interpreter "
                 "over 18 instantiations, independent dual-number reference (node-local, end-to-end, cross-variant)")

    # ------------------------------------------------------------------
    # classification of a case (mirror of account() in rc_c16.cpp; used for replayed cases)
    # ------------------------------------------------------------------
    def classify(self, case):
        nodes = case.get("nodes", [])
        if not nodes:
            return False, None, ["compile-probe"] if "compile_probe" in case else []
        depth = [1] * len(nodes)
        vars_ = set()
        dense = False
        nonlin = False
        labels = set()
        h = hashlib.sha256()
        for i, n in enumerate(nodes):
            op = n["op"]
            labels.add("op:" + op)
            if op == "VAR":
                vars_.add(n["var"])
            elif op == "DENSE":
                dense = True
            elif op != "CONST":
                depth[i] = 1 + max(depth[n["a"]], depth[n["b"]] if n["b"] >= 0 else 0)
            nonlin = nonlin or op in NONLINEAR
            h.update(("%s/%d/%d/%d/%d;" % (op, n["a"], n["b"], n["var"] if op == "VAR" else -1, n["tb"])).encode())
        nontriv = depth[-1] >= 3 and (len(vars_) >= 2 or dense) and nonlin
        labels.add("depth:%d" % min(depth[-1], 9))
        labels.add("dynamic-size:%d" % case.get("dynN", 0))
        return nontriv, h.hexdigest()[:16], sorted(labels)

    def floors_abs(self, tier, enabled_ops):
        """absolute floors (design: every operator and every size >= 200 times per run)"""
        fl = {}
        for op in enabled_ops:
            fl["op:" + op] = 200
        for n in range(1, 17):
            fl["size:%d:last-slot-active" % n] = 200
            fl["dynamic-size:%d" % n] = 200
        fl["nontrivial"] = 200
        return fl

    # ------------------------------------------------------------------
    def _build(self, defines):
        tag = "".join(sorted(d[-3:].lower() for d in defines))
        name = "rc_c16" + ("-" + tag if tag else "")
        return build.ensure_single(name, SRC, kind="plain",
                                   extra_flags=["-ffp-contract=off"] + ["-D%s=1" % d for d in defines],
                                   extra_libs=["-lrapidcheck", "-lcjson"], needs_lib=False)

    def _replay_once(self, exe, path, known_keys, tmpd):
        """-> (failed: bool, violation dict or None)"""
        fo = os.path.join(tmpd, "replay_fail_%d.json" % time.monotonic_ns())
        cmd = [exe, "--replay", path, "--fail-out", fo]
        if known_keys:
            cmd += ["--known", ",".join(known_keys)]
        r = subprocess.run(cmd, stdout=subprocess.PIPE, stderr=subprocess.PIPE, text=True)
        if r.returncode == 0:
            return False, None
        viol = None
        if os.path.exists(fo):
            try:
                with open(fo) as f:
                    viol = json.load(f).get("violation")
            except Exception:
                viol = None
        if viol is None:
            viol = {"rule": "replay ended with exit status %d" % r.returncode, "key": None,
                    "detail": (r.stdout + r.stderr)[-1500:]}
        if r.returncode == 3:
            viol = {"rule": "replay file not usable", "key": None, "detail": r.stdout[-500:]}
            return False, viol
        return True, viol

    def _confirm(self, exe, case, known_keys, tmpd, n=3):
        path = os.path.join(tmpd, "case_%s.json" % sha(case))
        with open(path, "w") as f:
            json.dump({"case": case}, f)
        fails, last = 0, None
        for _ in range(n):
            bad, v = self._replay_once(exe, path, known_keys, tmpd)
            if bad:
                fails += 1
                last = v
        return fails, last

    # ------------------------------------------------------------------
    def run_custom(self, tier, seed, replay):
        t0 = time.time()
        pid = self.ID
        known = load_known(pid)
        # VERIF_C16_IGNORE_KNOWN=key1,key2: treat these known_findings lines as absent (used to verify a
        # candidate fix in a private worktree without editing the shared known_findings.jsonl)
        ignore = set(k for k in os.environ.get("VERIF_C16_IGNORE_KNOWN", "").split(",") if k)
        known = [e for e in known if e.get("key") not in ignore]
        known_keys = sorted(e["key"] for e in known if e.get("status") == "known" and e.get("key"))
        tmpd = tempfile.mkdtemp(prefix="c16_", dir=os.environ.get("VERIF_TMPDIR") or "/tmp")
        try:
            return self._run(tier, seed, replay, t0, known, known_keys, tmpd)
        finally:
            shutil.rmtree(tmpd, ignore_errors=True)

    def _run(self, tier, seed, replay, t0, known, known_keys, tmpd):
        pid = self.ID
        # 1. compile probes -> which optional operations exist in this /repo
        defines = []
        probe_viol = []      # (key, what, compiler output)
        probe_seen = {}
        for key, p in sorted(PROBES.items()):
            ok, out = run_probe(key)
            if ok:
                defines.append(p["define"])
            else:
                probe_seen[key] = out
                probe_viol.append((key, p["what"], out))
        exe = self._build(defines)
        enabled_ops = [o for o in ALL_OPS if not (o == "ATAN2SE" and "C16_HAVE_ATAN2_SE" not in defines)]
        # canned inputs: is a process-aborting finding still present?  If not, the binary is not told
        # about the key and exercises the operation like any other.
        canned_seen = {}
        for key, case in sorted(CANNED.items()):
            fails, v = self._confirm(exe, case, [k for k in known_keys if k != key], tmpd, 1)
            if fails:
                canned_seen[key] = v
            elif key in known_keys:
                known_keys = [k for k in known_keys if k != key]

        # 2. replay of one file
        if replay:
            with open(replay) as f:
                case = json.load(f)["case"]
            if "compile_probe" in case:
                ok, out = run_probe(case["compile_probe"])
                if not ok:
                    print("VIOLATION property=%s replay=%s" % (pid, replay))
                    print(json.dumps({"rule": "an operation named by the property cannot be instantiated",
                                      "key": case["compile_probe"], "detail": out[-1500:]}, indent=1))
                    return 1
                print("replay passes: property=%s" % pid)
                return 0
            bad, v = self._replay_once(exe, replay, known_keys, tmpd)
            if bad:
                print("VIOLATION property=%s replay=%s" % (pid, replay))
                print(json.dumps(_trim(v), indent=1, default=str)[:4000])
                return 1
            if v is not None:
                print("HARNESS-ERROR property=%s %s" % (pid, v))
                return 2
            print("replay passes: property=%s" % pid)
            return 0

        viol_items = []      # {"case","viol","phase"}
        # 3. regression inputs
        regress_replayed = 0
        rdir = os.path.join(REGRESS, pid)
        if os.path.isdir(rdir):
            for fn in sorted(os.listdir(rdir)):
                if not fn.endswith(".json"):
                    continue
                regress_replayed += 1
                path = os.path.join(rdir, fn)
                with open(path) as f:
                    case = json.load(f)["case"]
                if "compile_probe" in case:
                    continue     # probed above on every run
                bad, v = self._replay_once(exe, path, known_keys, tmpd)
                if bad:
                    viol_items.append({"case": case, "viol": v, "phase": "regress:" + fn})

        # 4. the search, sharded
        nshards = int(os.environ.get("VERIF_SHARDS", self.SHARDS))
        nex = int(os.environ.get("VERIF_EXAMPLES", self.EXAMPLES[tier]))
        procs = []
        for i in range(nshards):
            env = dict(os.environ)
            env["RC_PARAMS"] = "seed=%d max_success=%d max_size=100" % (seed * 1000 + i + 1, nex)
            fo = os.path.join(tmpd, "fail_%d.json" % i)
            fps = os.path.join(tmpd, "fps_%d.bin" % i)
            cmd = [exe, "--fail-out", fo, "--fps-out", fps, "--deadline", str(self.TIME_CAP[tier])]
            if known_keys:
                cmd += ["--known", ",".join(known_keys)]
            so = open(os.path.join(tmpd, "out_%d.json" % i), "w")
            se = open(os.path.join(tmpd, "err_%d.txt" % i), "w")
            procs.append((subprocess.Popen(cmd, stdout=so, stderr=se, env=env), fo, fps, so, se, i))
        cap = self.TIME_CAP[tier]
        timed_out = False
        errors = []
        shard_stats = []
        crashed = 0
        for p, fo, fps, so, se, i in procs:
            try:
                rc = p.wait(timeout=max(1.0, cap + 60 - (time.time() - t0)))   # hard stop; the binary stops itself at cap
            except subprocess.TimeoutExpired:
                p.kill()
                p.wait()
                timed_out = True
                rc = None
            so.close()
            se.close()
            st = None
            try:
                with open(so.name) as f:
                    txt = f.read().strip()
                if txt:
                    st = json.loads(txt.splitlines()[-1])
            except Exception as e:
                errors.append("shard %d: unreadable counters: %s" % (i, e))
            if st is not None:
                shard_stats.append((st, fps))
            if rc in (0, None):
                continue
            if os.path.exists(fo) and os.path.getsize(fo) > 0:
                with open(fo) as f:
                    d = json.load(f)
                if rc != 1:
                    crashed += 1
                viol_items.append({"case": d["case"], "viol": d["violation"], "phase": "search shard %d" % i})
            else:
                with open(se.name) as f:
                    tail = f.read()[-1500:]
                errors.append("shard %d ended with status %s without a counter-example: %s" % (i, rc, tail))

        # 5. merge counters
        merged = merge([])
        merged["shards"] = nshards
        merged["timed_out"] = timed_out
        merged["regress_replayed"] = regress_replayed
        merged["crashed"] = crashed
        variant_evals = 0
        known_hits = {}
        op_nodes = {}
        op_tb = {}
        deviated = 0
        fps_files = []
        for st, fps in shard_stats:
            merged["evaluations"] += st["cases"]
            merged["discarded"] += st["discarded"]
            merged["timed_out"] = merged["timed_out"] or bool(st.get("timed_out"))
            variant_evals += st["variant_evaluations"]
            deviated += st.get("deviated_trees", 0)
            for src in (st["labels"], st["op_trees"]):
                for k, v in src.items():
                    merged["labels"][k] = merged["labels"].get(k, 0) + v
            for k, v in st["op_nodes"].items():
                op_nodes[k] = op_nodes.get(k, 0) + v
            for k, v in st["op_toolbox_nodes"].items():
                op_tb[k] = op_tb.get(k, 0) + v
            for k, v in st["known_hits"].items():
                known_hits[k] = known_hits.get(k, 0) + v
            for h, c in st["samples"]:
                merged["samples"].append((h, c))
            if os.path.exists(fps):
                fps_files.append(fps)
        merged["samples"].sort(key=lambda t: t[0])
        merged["excluded_known"] = deviated
        try:
            import numpy as np
            arrs = [np.fromfile(f, dtype=np.uint64) for f in fps_files]
            ndistinct = int(np.unique(np.concatenate(arrs)).size) if arrs else 0
        except ImportError:
            s = set()
            for f in fps_files:
                with open(f, "rb") as fh:
                    b = fh.read()
                s.update(b[k:k + 8] for k in range(0, len(b), 8))
            ndistinct = len(s)
        merged["fps"] = range(ndistinct)      # write_evidence only needs len()

        # 6. findings
        for e in known:
            if e.get("status") == "known":
                seen = e.get("key") in known_hits or e.get("key") in probe_seen or e.get("key") in canned_seen
                print("KNOWN-FINDING: property=%s %s [%s; seen %s this run]" % (
                    pid, e.get("what", ""), e.get("key"), "yes" if seen else "no"))
        rcode = 0
        nviol = 0
        flaky = 0
        for key, what, out in probe_viol:
            if key in known_keys:
                continue
            case = {"compile_probe": key, "source": PROBES[key]["src"]}
            d = os.path.join(OUT, pid)
            os.makedirs(d, exist_ok=True)
            path = os.path.join(d, sha(case) + ".json")
            with open(path, "w") as f:
                json.dump({"property": pid, "case": case, "tier": tier, "seed": seed,
                           "violation": {"rule": "an operation named by the property cannot be instantiated: " + what,
                                         "key": key, "detail": out[-3000:]}}, f, indent=1)
            print("VIOLATION property=%s replay=%s" % (pid, path))
            print("  rule: %s (compile error)" % what)
            print("  key: %s" % key)
            nviol += 1
            rcode = 1
        reported = set()
        reported_keys = set()
        for item in viol_items:
            k = sha(item["case"])
            vk = (item["viol"] or {}).get("key")
            if k in reported or len(reported) >= 3 or (vk and vk in reported_keys):
                continue
            fails, v = self._confirm(exe, item["case"], known_keys, tmpd, 3)
            if fails == 3:
                reported.add(k)
                if v.get("key"):
                    reported_keys.add(v.get("key"))
                d = os.path.join(OUT, pid)
                os.makedirs(d, exist_ok=True)
                path = os.path.join(d, k + ".json")
                with open(path, "w") as f:
                    json.dump({"property": pid, "case": item["case"], "violation": _trim(v, 4000),
                               "phase": item["phase"], "tier": tier, "seed": seed}, f, indent=1, default=str)
                print("VIOLATION property=%s replay=%s" % (pid, path))
                print("  rule: %s" % v.get("rule"))
                print("  key: %s" % v.get("key"))
                print("  expr: %s" % item["case"].get("expr"))
                print("  detail: %s" % json.dumps(_trim(v.get("detail"), 600), default=str)[:1500])
                nviol += 1
                rcode = 1
            else:
                flaky += 1
                print("FLAKY-DISCARDED property=%s case failed %d/3 on replay (harness problem, not a finding)" % (pid, fails))

        # 7. evidence
        wall = time.time() - t0
        sizes = {}
        for n in range(1, 17):
            sizes["N=%d" % n] = {
                "static_variant_trees": merged["evaluations"],
                "trees_with_last_slot_nonzero": merged["labels"].get("size:%d:last-slot-active" % n, 0),
                "dynamic_variant_trees(x2 types)": merged["labels"].get("dynamic-size:%d" % n, 0)}
        extra = {
            "engine": "rapidcheck in process (harness/rc_c16.cpp), %d shards x max_success=%d, max_size=100" % (nshards, nex),
            "variants_per_tree": 18,
            "variant_evaluations": variant_evals,
            "per_size": sizes,
            "operator_node_counts": dict(sorted(op_nodes.items())),
            "operator_nodes_via_Opm_wrappers": dict(sorted(op_tb.items())),
            "known_deviation_hits(variant level)": known_hits,
            "excluded_known_meaning": "trees in which a listed value deviation (E/s, pow(s,E)) was tolerated; for those "
                                      "the end-to-end comparison is skipped, node-local and cross-variant oracles still run",
            "optional_operations_enabled": defines,
            "compile_probe_failures": sorted(probe_seen),
            "flaky_discarded": flaky,
        }
        write_evidence(self, tier, seed, merged, wall, nviol, extra)

        if errors:
            print("HARNESS-ERROR property=%s\n%s" % (pid, errors[0]))
            return 1 if rcode == 1 else 2
        if rcode == 1:
            return 1
        if flaky:
            return 2
        small = "VERIF_EXAMPLES" in os.environ
        if merged["discarded"] > self.MAX_REJECT * max(1, merged["evaluations"] + merged["discarded"]):
            print("INCONCLUSIVE property=%s: %d trees discarded (reference not finite or argument outside the stated domain: generator problem)" % (
                pid, merged["discarded"]))
            return 2
        if merged["timed_out"]:
            print("NOTE property=%s time cap hit, %d trees done" % (pid, merged["evaluations"]))
        if merged["evaluations"] < self.MIN_EVALS[tier] * (nshards / 16.0) and not small:
            print("INCONCLUSIVE property=%s: only %d evaluations (< %d)" % (pid, merged["evaluations"], self.MIN_EVALS[tier]))
            return 2
        if not small:
            for lab, n in sorted(self.floors_abs(tier, enabled_ops).items()):
                got = merged["labels"].get(lab, 0)
                if got < n:
                    print("INCONCLUSIVE property=%s: class '%s' only %d times (floor %d)" % (pid, lab, got, n))
                    return 2
        if ndistinct < 2:
            print("INCONCLUSIVE property=%s: fewer than 2 distinct non-trivial cases" % pid)
            return 2
        print("OK property=%s tier=%s seed=%d evaluations=%d (x18 variants = %d) distinct_nontrivial=%d rejected=0 "
              "discarded=%d excluded_known=%d wall=%.1fs" % (
                  pid, tier, seed, merged["evaluations"], variant_evals, ndistinct, merged["discarded"],
                  merged["excluded_known"], wall))
        return 0
